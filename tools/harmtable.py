#!/usr/bin/env python3
"""writes harmless/README.md from harmless/*/meta.json"""
import json, os, glob, re
V = os.path.dirname(os.path.dirname(os.path.abspath(__file__)))
notes = json.load(open(os.path.join(V, 'harmless', 'notes.json'))) if os.path.exists(os.path.join(V, 'harmless', 'notes.json')) else {}
rows = []
def key(p):
    return int(re.sub(r'\D', '', os.path.basename(os.path.dirname(p))) or 0)
for p in sorted(glob.glob(os.path.join(V, 'harmless', '*', 'meta.json')), key=key):
    m = json.load(open(p)); hid = m['id']
    v = m.get('checks_on_changed_tree', {})
    rd = open(os.path.join(os.path.dirname(p), 'README.md')).read() if os.path.exists(os.path.join(os.path.dirname(p), 'README.md')) else ''
    what = notes.get(hid, {}).get('what') or ' '.join(rd.split())[:220]
    rows.append((hid, what, ', '.join(k for k, x in v.items() if x.get('exit') == 1) or '-', ', '.join(k for k, x in v.items() if x.get('exit') == 2) or '-', notes.get(hid, {}).get('note', '')))
out = ['# Behaviour-preserving refactorings (false-alarm test)', '',
       'Refactorings written by fresh sub-agents that were asked for a semantics-preserving change of 5-40 lines inside existing function',
       'bodies (no new helpers, fields or dependencies; builds and the whole test suite pass with and without `--features parallel`).',
       'Every check is run against each changed tree (`tools/recheck.py`). A check must never alarm here; where a refactoring changes',
       'the shape an injected invariant or proof anchor is tied to, the checks of the properties tagged on that function are undecided (exit 2).', '',
       '| id | what was refactored | alarms (exit 1) | undecided (exit 2) | note |', '|---|---|---|---|---|']
for r in rows:
    out.append('| %s | %s | %s | %s | %s |' % tuple(x.replace('|', '\\|') for x in r))
out += ['', '%d refactorings, %d with an alarm.' % (len(rows), sum(1 for r in rows if r[2] != '-')), '']
open(os.path.join(V, 'harmless', 'README.md'), 'w').write('\n'.join(out))
print(out[-2])
