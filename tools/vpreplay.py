"""replay files (DESIGN.md section 7): the failed obligation, the verifier's output and -- where a generator
exists for the obligation -- a failing input replayed against the real code (scratch copy of /repo)."""
import os, json, re, shutil, subprocess, tempfile

VERIF = os.path.dirname(os.path.dirname(os.path.abspath(__file__)))

# obligation pattern -> scenarios of replay/drivers/vp_replay.rs (argv lists)
SCENARIOS = [
    (r'^levmar\.set_params\.(seq|par)\.(noStale|coherent)$', [['stale_after_failed_set_params']]),
    (r'^levmar\.set_params\.(seq|par)\.pre$', [['nonfinite_phi', 'inf'], ['nonfinite_phi', 'nan']]),
    (r'^stats\.try_calculate\.(arith|pre|ok|underdetermined.*)$', [['underdetermined', '3', '2', '2'], ['underdetermined', '4', '2', '2'], ['stats_sweep']]),
    # (SWEEP_FOR below maps degraded functions to these sweeps as their bounded stand-in)
    # algebraic obligations: a sweep of concrete problems against an independent oracle (a replay aid only: the failed
    # obligation is the violation; the sweep supplies a concrete failing input when one of its configurations shows it)
    (r'^(levmar\.(set_params|jacobian|residuals|builder|problem|copy_matrix_to_column)|util\.|cor\.c0[1-7]|cor\.c10|kani\.(copy_matrix|to_vector))', [['algebra_sweep']]),
    (r'^(stats\.|cor\.c1[234]|levmar\.solver\.fit_with_statistics)', [['stats_sweep'], ['underdetermined', '5', '3', '2']]),
]


# bounded stand-in for functions that could not be verified (degraded): function-id prefix -> sweep scenarios
SWEEP_FOR = [
    (('stats.', 'levmar.solver.fit_with_statistics'), [['stats_sweep'], ['nonfinite_derivative_stats']]),
    (('levmar.', 'util.'), [['algebra_sweep']]),
    (('model.',), [['model_sweep'], ['algebra_sweep']]),   # the problem-level sweeps run on builder-made models
    (('mbuilder.', 'fbuilder.', 'detail.', 'mbf.'), [['model_sweep']]),
]


# thorough tier: the sweeps whose findings can carry a given property id (C11 needs the parallel feature: none)
SWEEPS_NAMING = {}
for _p in ('C01', 'C02', 'C03', 'C04', 'C07', 'C10', 'C18'):
    SWEEPS_NAMING[_p] = [['algebra_sweep']]
for _p in ('C06', 'C09'):
    SWEEPS_NAMING[_p] = [['algebra_sweep'], ['stats_sweep']]
for _p in ('C12', 'C13', 'C14'):
    SWEEPS_NAMING[_p] = [['stats_sweep']]
for _p in ('C15', 'C16', 'C17'):
    SWEEPS_NAMING[_p] = [['model_sweep']]
SWEEPS_NAMING['C08'] = [['algebra_sweep'], ['stats_sweep'], ['model_sweep'], ['nonfinite_derivative_stats'], ['nonfinite_phi', 'inf'], ['nonfinite_phi', 'nan']]


def sweeps_for(fn_ids):
    out = []
    for fid in fn_ids:
        for prefixes, scen in SWEEP_FOR:
            if fid.startswith(prefixes):
                for sc in scen:
                    if sc not in out:
                        out.append(sc)
                break
    return out


def build_driver(repo, scratch):
    rc = os.path.join(scratch, 'repo')
    shutil.copytree(repo, rc, ignore=shutil.ignore_patterns('target', '.git', 'benches', 'tests'))
    # benches are declared in Cargo.toml: drop the [[bench]] sections of the scratch copy
    ct = open(os.path.join(rc, 'Cargo.toml')).read()
    ct = re.sub(r'\[\[bench\]\][^\[]*', '', ct)
    open(os.path.join(rc, 'Cargo.toml'), 'w').write(ct)
    d = os.path.join(scratch, 'driver')
    os.makedirs(os.path.join(d, 'src'))
    open(os.path.join(d, 'Cargo.toml'), 'w').write(
        '[package]\nname = "vp_replay"\nversion = "0.0.0"\nedition = "2021"\n[dependencies]\n'
        'varpro = { path = "../repo" }\nnalgebra = "0.33"\nlevenberg-marquardt = "0.14"\n[workspace]\n')
    shutil.copy(os.path.join(VERIF, 'replay', 'drivers', 'vp_replay.rs'), os.path.join(d, 'src', 'main.rs'))
    if os.path.exists(os.path.join(repo, 'Cargo.lock')):
        shutil.copy(os.path.join(repo, 'Cargo.lock'), os.path.join(d, 'Cargo.lock'))
    env = dict(os.environ, CARGO_NET_OFFLINE='true', CARGO_TARGET_DIR=os.path.join(scratch, 'target'))
    p = subprocess.run(['cargo', 'build', '--offline'], cwd=d, capture_output=True, text=True, timeout=900, env=env)
    if p.returncode != 0:
        return None, p.stderr[-1500:]
    return os.path.join(scratch, 'target', 'debug', 'vp_replay'), ''


def run_scenarios(repo, scen):
    scratch = tempfile.mkdtemp(prefix='vpreplay-')
    out = []
    try:
        exe, err = build_driver(repo, scratch)
        if exe is None:
            return [dict(scenario=None, outcome='driver did not build', detail=err)], False
        rep = False
        for argv in scen:
            try:
                p = subprocess.run([exe] + argv, capture_output=True, text=True, timeout=60)
                findings = []
                for l in p.stdout.splitlines():
                    m = re.match(r'^REPRODUCED(?: \[([^\]]*)\])?: (.*)$', l)
                    if m:
                        findings.append(dict(tags=(m.group(1) or '').split(), text=m.group(2)))
                if p.returncode != 0:
                    outcome, detail, ok = 'panicked / aborted (exit %d)' % p.returncode, (p.stderr or '')[-600:], True
                    first = next((l for l in (p.stderr or '').splitlines() if 'panicked at' in l), (p.stderr or '').strip()[:200])
                    if '/driver/src/main.rs' in first:
                        # an unwrap() of the driver itself: the library returned an unexpected Err / None; no property is named
                        findings.append(dict(tags=[], text='the driver could not set the scenario up (' + first.strip()[:200] + ')'))
                        ok = False
                        outcome = 'scenario could not be set up'
                    else:
                        tags = ['C08'] + (['C17'] if argv and argv[0] == 'model_sweep' else [])
                        findings.append(dict(tags=tags, text='the library panicked: ' + first.strip()[:300]))
                elif findings:
                    outcome, detail, ok = 'violation observed', p.stdout.strip()[-1500:], True
                else:
                    outcome, detail, ok = 'not reproduced', p.stdout.strip()[-600:], False
            except subprocess.TimeoutExpired:
                outcome, detail, ok = 'did not return within 60 s (killed by the watchdog)', '', True
                findings = [dict(tags=['C08'], text='the scenario did not return within 60 s')]
            out.append(dict(scenario=' '.join(argv), profile='debug', outcome=outcome, detail=detail, reproduced=ok, findings=findings))
            rep = rep or ok
        return out, rep
    finally:
        shutil.rmtree(scratch, ignore_errors=True)


def make_replay(pid, f, repo, src, ur):
    rep = {
        'property': pid,
        'failed_obligation': f['clause'],
        'kind': f['kind'],
        'function': f.get('fn'),
        'repo_file': f.get('repo_file'),
        'repo_line': f.get('repo_line'),
        'repo_source_line': src,
        'function_repo_lines': f.get('fn_repo_lines'),
        'verifier_message': f.get('message'),
        'verifier_output': f.get('rendered'),
        'failing_input_reproduced': False,
    }
    if f.get('concrete'):
        rep['counterexample'] = f['concrete']
        rep['failing_input_reproduced'] = True
    scen = None
    for pat, sc in SCENARIOS:
        if scen is None and re.match(pat, f['clause']):
            scen = sc
    if scen and os.environ.get('VP_NO_REPLAY') != '1':
        try:
            runs, ok = run_scenarios(repo, scen)
        except Exception as e:
            runs, ok = [dict(outcome='replay driver error', detail=str(e))], False
        rep['replay_runs'] = runs
        rep['failing_input_reproduced'] = rep['failing_input_reproduced'] or ok
        rep['replay_cmd'] = 'build replay/drivers/vp_replay.rs against a scratch copy of /repo; run: vp_replay ' + ' | vp_replay '.join(' '.join(a) for a in scen)
    if not rep['failing_input_reproduced']:
        rep['note'] = 'Verus gives no counterexample and no mechanical generator reproduced a failure for this obligation (no-failing-input-found)'
    return rep
