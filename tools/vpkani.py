"""Kani part (DESIGN.md section 8): loop-free complete harnesses and bounded stand-ins. Filled in later."""
def run_harnesses(P, tier, repo, pid):
    return {'harnesses': [], 'cmds': []}
