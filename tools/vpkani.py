"""Kani part (DESIGN.md section 8): loop-free complete harnesses (macro-generated code, documented panic) and
bounded stand-ins that validate leaf contracts the Verus prelude assumes. The harness sources live in
/verif/kani and are injected, behind #[cfg(kani)], into a SCRATCH COPY of /repo's working tree at check time
(add-only; /repo itself carries no hook)."""
import os, re, shutil, subprocess, tempfile, time, hashlib

VERIF = os.path.dirname(os.path.dirname(os.path.abspath(__file__)))

# module file to extend, injected file, source in /verif/kani
MODULES = {
    'basis_function': ('src/basis_function/mod.rs', 'src/basis_function/kani_harness.rs', 'basis_function_harness.rs'),
    'statistics': ('src/statistics/mod.rs', 'src/statistics/kani_harness.rs', 'statistics_harness.rs'),
    'levmar': ('src/solvers/levmar/mod.rs', 'src/solvers/levmar/kani_harness.rs', 'levmar_harness.rs'),
    'util': ('src/util/mod.rs', 'src/util/kani_harness.rs', 'nalgebra_harness.rs'),
}
# harness -> (module, kind, bound/explanation)
HARNESSES = {}
for n in range(1, 11):
    HARNESSES['dispatch_arity_%d' % n] = ('basis_function', 'complete', 'loop-free; all u64 parameter values, symbolic position')
HARNESSES['cbr_rejects_bad_p_f64'] = ('statistics', 'complete', 'loop-free prefix; all f64 bit patterns outside (0,1) or non-finite; code after the assertion must be unreachable')
HARNESSES['cbr_rejects_bad_p_f32'] = ('statistics', 'complete', 'loop-free prefix; all f32 bit patterns outside (0,1) or non-finite; code after the assertion must be unreachable')
HARNESSES['cbr_quantile_argument_f32'] = ('statistics', 'complete', 'all f32 probabilities in (0,1); distrs::StudentsT::ppf stubbed by a probe that records its arguments')
HARNESSES['cbr_quantile_argument_f64'] = ('statistics', 'complete', 'all f64 probabilities in (0,1); distrs::StudentsT::ppf stubbed by a probe that records its arguments')
HARNESSES['castf64_impls_are_plain_casts'] = ('statistics', 'complete', 'loop-free; all f64 and f32 bit patterns; both CastF64 impls and their ZERO / ONE constants')
HARNESSES['stats_error_from_model_error'] = ('statistics', 'complete', 'loop-free; all payload values of two ModelError variants')
HARNESSES['is_all_finite_2x2'] = ('levmar', 'bounded', '2 x 2 matrix, all f64 bit patterns, unwind 6')
HARNESSES['to_vector_colmajor_3x2'] = ('levmar', 'bounded', '3 x 2 matrix, symbolic entries and position, unwind 8')
HARNESSES['copy_matrix_to_column_2x3'] = ('levmar', 'bounded', '2 x 3 source (three right-hand sides) into a 6 x 2 target, symbolic entries and position, unwind 14')
HARNESSES['concat_colwise_2x2_2x1'] = ('statistics', 'bounded', '2 x 2 and 2 x 1 operands, symbolic entries, unwind 6')
HARNESSES['extract_range_1_3_of_4'] = ('statistics', 'bounded', 'range [1,3) of a 4-vector, symbolic entries, unwind 6')

# bounded validation of contracts the prelude ASSUMES of nalgebra (never counted as proved)
NALGEBRA = {
    'na_transpose_2x3': 'transpose: 2 x 3, symbolic u8 entries and position',
    'na_column_view_3x2': 'column(j) and column-major from_column_slice: 3 x 2',
    'na_columns_rows_block_3x4': 'columns(1,2) and rows(1,2) of a 3 x 4 matrix',
    'na_from_vec_as_slice_4': 'DVector::from_vec / as_slice: 4 elements',
    'na_reshape_generic_2x3_to_6x1': 'reshape_generic keeps the column-major data: 2 x 3 -> 6 x 1',
    'na_column_mut_copy_from_3x2': 'column_mut(j).copy_from: 3 x 2',
    'na_component_mul_assign_3': 'component_mul_assign: 3 elements, entries < 8',
    'na_mul_trmul_add_2x2': 'Mul / tr_mul / Add: 2 x 2, entries < 4',
    'na_diagonal_from_element_2x2': 'diagonal / from_element / zeros',
    'na_linear_index_iter_3x2': 'Index<usize> is column-major, len() = r*c, iter() visits m[0..len) in order: 3 x 2',
}
for _n, _b in NALGEBRA.items():
    HARNESSES[_n] = ('util', 'bounded', _b)

# bounded stand-ins for functions the extractor could not bring through (lost anchor): function id -> harnesses
FALLBACK = {
    'levmar.is_all_finite': ['is_all_finite_2x2'],
    'levmar.copy_matrix_to_column': ['copy_matrix_to_column_2x3'],
    'util.to_vector': ['to_vector_colmajor_3x2', 'copy_matrix_to_column_2x3'],
    'stats.concat_colwise': ['concat_colwise_2x2_2x1'],
    'stats.extract_range': ['extract_range_1_3_of_4'],
}


def prepare(repo, scratch, modules):
    rc = os.path.join(scratch, 'repo')
    shutil.copytree(repo, rc, ignore=shutil.ignore_patterns('target', '.git'))
    for m in modules:
        modfile, inj, src = MODULES[m]
        with open(os.path.join(rc, modfile), 'a') as f:
            f.write('\n#[cfg(kani)]\nmod kani_harness;\n')
        shutil.copy(os.path.join(VERIF, 'kani', src), os.path.join(rc, inj))
    return rc


def parse(out, names):
    res = {}
    blocks = re.split(r'Checking harness ', out)
    for b in blocks[1:]:
        name = b.split('...')[0].strip().split('::')[-1]
        m = re.search(r'VERIFICATION:- (SUCCESSFUL|FAILED)', b)
        status = None
        if m:
            status = 'SUCCESS' if m.group(1) == 'SUCCESSFUL' else 'FAILURE'
        # a satisfied cover in a should_panic harness means code after the panic was reached
        cov = re.findall(r'Status: (SATISFIED|UNSATISFIABLE|UNREACHABLE)\s*\n\s*Description: "([^"]*)"', b)
        for st, desc in cov:
            if 'returned for a rejected' in desc and st == 'SATISFIED':
                status = 'FAILURE'
        mc = re.search(r'(\d+) of (\d+) cover properties satisfied', b)
        if mc and int(mc.group(1)) > 0:
            status = 'FAILURE'
        failed = re.findall(r'Failed Checks: (.*)', b)
        # an unwinding assertion is a bound of the HARNESS that was too small for this code, not a property failure: undecided
        if status == 'FAILURE' and failed and all('unwinding assertion' in x for x in failed):
            status = 'UNWIND-BOUND'
        res[name] = dict(status=status or 'UNKNOWN', failed_checks=failed[:5], output_tail=b[-1500:])
    return res


def run_harnesses(P, tier, repo, pid):
    cfg = P.get('kani') or {}
    names = list(cfg.get('quick', []))
    if tier == 'thorough':
        names += [n for n in cfg.get('thorough', []) if n not in names]
    if not names:
        return {'harnesses': [], 'cmds': []}
    modules = sorted(set(HARNESSES[n][0] for n in names))
    scratch = tempfile.mkdtemp(prefix='vpkani-%s-' % pid)
    out_h = []
    try:
        rc = prepare(repo, scratch, modules)
        cmd = ['cargo', 'kani', '-Z', 'stubbing', '--target-dir', os.path.join(scratch, 'target')]
        for n in names:
            cmd += ['--harness', n]
        env = dict(os.environ, CARGO_NET_OFFLINE='true')
        t0 = time.time()
        timeout = 3000 if tier == 'thorough' else 1500
        try:
            p = subprocess.run(cmd, cwd=rc, capture_output=True, text=True, timeout=timeout, env=env)
            out = p.stdout + '\n' + p.stderr
            timed_out = False
        except subprocess.TimeoutExpired as e:
            out = (e.stdout or b'').decode('utf8', 'replace') if isinstance(e.stdout, bytes) else (e.stdout or '')
            timed_out = True
        wall = time.time() - t0
        res = parse(out, names)
        for n in names:
            mod, kind, bound = HARNESSES[n]
            r = res.get(n)
            if r is None:
                st = 'TIMEOUT' if timed_out else 'NOT-RUN'
                r = dict(status=st, failed_checks=[], output_tail=out[-1500:])
            out_h.append(dict(name=n, kind=kind, bound=bound, status=r['status'], file=MODULES[mod][0],
                              failed_checks=r['failed_checks'], output_tail=r['output_tail'] if r['status'] != 'SUCCESS' else '',
                              concrete=None))
        return {'harnesses': out_h, 'cmds': [' '.join(cmd[:4] + cmd[6:]) + ' (in a scratch copy of /repo with kani/*.rs injected behind cfg(kani)); %.0fs' % wall]}
    finally:
        shutil.rmtree(scratch, ignore_errors=True)
