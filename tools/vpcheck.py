"""orchestrator / reporter for the contract checks (see /verif/check and DESIGN.md sections 1 and 7)"""
import json, os, re, shutil, subprocess, sys, tempfile, time, hashlib
from concurrent.futures import ThreadPoolExecutor

VERIF = os.path.dirname(os.path.dirname(os.path.abspath(__file__)))
EXTRACT = os.path.join(VERIF, 'tools', 'vp-extract', 'target', 'release', 'vp-extract')
sys.path.insert(0, os.path.join(VERIF, 'tools'))
from assemble import assemble

FAIL_KINDS = [
    ('postcondition not satisfied', 'post'),
    ('unable to prove post-condition of closure', 'closure-post'),
    ('precondition not satisfied', 'pre'),
    ('assertion failed', 'assert'),
    ('loop invariant not preserved', 'inv'),
    ('loop invariant not satisfied', 'inv'),
    ('invariant not satisfied', 'inv'),
    ('possible arithmetic underflow/overflow', 'arith'),
    ('possible division by zero', 'arith'),
    ('decreases not satisfied', 'decreases'),
    ('could not prove termination', 'decreases'),
    ('loop ensures not satisfied', 'inv'),
    ('possible bit shift underflow/overflow', 'arith'),
]
UNDECIDED_PAT = ['rlimit', 'resource limit', 'timed out', 'timeout', 'unsupported', 'not supported', 'internal error']
FORBIDDEN_IN_UNIT = ['assume(', 'admit(', 'external_body', 'assume_specification', 'external_fn_specification', 'verifier::external', 'uninterp ', 'axiom_']
ASSUMPTION_PAT = re.compile(r'(external_body|assume_specification|uninterp\s+spec\s+fn|proof\s+fn\s+axiom_\w+)')


GLOBAL_ASSUMPTIONS = [
    'machine floats are treated as mathematical reals (rounding, overflow to inf, NaN arithmetic are not modelled; finiteness is a ghost flag)',
    'the extraction rules X1-X17 (DESIGN.md sections 2 and 13): iterator plumbing is replaced by index loops, the statements inside are the real text',
    'Verus 0.2026.09.13 / Z3 and (where used) Kani 0.68 / CBMC 6.11 are sound',
]


class Undecided(Exception):
    pass


_CACHE = None


def log(*a):
    print(*a, file=sys.stderr, flush=True)


def load_props():
    return json.load(open(os.path.join(VERIF, 'props.json')))


def strip_comments(text):
    text = re.sub(r'/\*.*?\*/', '', text, flags=re.S)
    return '\n'.join(l.split('//')[0] for l in text.splitlines())


def scan_unit_template(path):
    body = strip_comments(open(path).read())
    for f in FORBIDDEN_IN_UNIT:
        if f == 'axiom_':
            # calling an axiom is fine (it is listed in the prelude scan); declaring one is not
            if re.search(r'proof\s+fn\s+axiom_', body):
                raise Undecided('assumption scan: %s declares an axiom (only the prelude may)' % path)
            continue
        if f in body:
            raise Undecided('assumption scan: %s contains forbidden construct %r' % (path, f))


def scan_prelude(path):
    """list every assumed item of the prelude by name"""
    out = []
    text = open(path).read()
    lines = text.splitlines()
    for i, l in enumerate(lines):
        m = ASSUMPTION_PAT.search(l.split('//')[0])
        if not m:
            continue
        kind = m.group(1)
        name = None
        if kind.startswith('external_body'):
            # the item name is on this or one of the next lines
            for j in range(i, min(i + 4, len(lines))):
                mm = re.search(r'\b(fn|struct)\s+([A-Za-z_0-9]+)', lines[j].split('external_body]')[-1] if j == i else lines[j])
                if mm:
                    name = mm.group(1) + ' ' + mm.group(2)
                    break
        elif kind.startswith('assume_specification'):
            mm = re.search(r'\[([^\]]+)\]', l)
            name = 'spec of ' + (mm.group(1).strip() if mm else '?')
        elif kind.startswith('uninterp'):
            mm = re.search(r'fn\s+([A-Za-z_0-9]+)', l)
            name = 'uninterp ' + (mm.group(1) if mm else '?')
        else:
            mm = re.search(r'fn\s+(axiom_\w+)', l)
            name = mm.group(1) if mm else '?'
        out.append('%s (prelude.rs:%d)' % (name or kind, i + 1))
    return out


def run(cmd, cwd=None, timeout=None, env=None):
    t0 = time.time()
    try:
        p = subprocess.run(cmd, cwd=cwd, capture_output=True, text=True, timeout=timeout, env=env)
    except subprocess.TimeoutExpired:
        raise Undecided('time-out after %ss: %s' % (timeout, ' '.join(cmd[:3])))
    return p.returncode, p.stdout, p.stderr, time.time() - t0


def extract_unit(unit, repo, scratch, degrade=None):
    tpl = os.path.join(VERIF, 'contracts', unit + '.vrs')
    scan_unit_template(tpl)
    gen = os.path.join(scratch, unit + '.gen.rs')
    mp = os.path.join(scratch, unit + '.map.json')
    if not os.path.exists(EXTRACT):
        raise Undecided('vp-extract is not built (run MANIFEST.setup_cmd)')
    env = dict(os.environ)
    if degrade:
        env['VP_EXTRACT_DEGRADE'] = ','.join(degrade)
    rc, out, err, _ = run([EXTRACT, repo, tpl, gen, mp], timeout=120, env=env)
    if rc != 0:
        raise Undecided('extraction of unit %s failed: %s' % (unit, err.strip() or out.strip()))
    return gen, json.load(open(mp))


def verus(file, scratch, extra=None, timeout=900):
    cmd = ['verus', os.path.basename(file), '--verify-module', 'unit', '--multiple-errors', '50',
           '--output-json', '--time', '--error-format=json'] + (extra or [])
    rc, out, err, wall = run(cmd, cwd=scratch, timeout=timeout)
    try:
        res = json.loads(out)
    except Exception:
        res = None
    diags = []
    for l in err.splitlines():
        l = l.strip()
        if l.startswith('{'):
            try:
                diags.append(json.loads(l))
            except Exception:
                pass
    return rc, res, diags, err, wall, ' '.join(cmd)


MARK = re.compile(r'/\*#([A-Za-z0-9_.\-]+)((?:\s+C\d+)*)\s*\*/')


def clause_markers(text):
    """[(line, col, id, [tags])] 1-based lines"""
    out = []
    for i, l in enumerate(text.splitlines()):
        for m in MARK.finditer(l):
            out.append((i + 1, m.start(), m.group(1), m.group(2).split()))
    return out


def nearest_marker(markers, line, col, lines=None):
    """the clause marker this span belongs to: the closest one before it, provided no other item starts in between"""
    best = None
    for (ml, mc, mid, tags) in markers:
        if (ml, mc) <= (line, col):
            if best is None or (ml, mc) > (best[0], best[1]):
                best = (ml, mc, mid, tags)
    if best is not None and lines is not None:
        if line - best[0] > 25:
            return None
        for l in lines[best[0]:line - 1]:
            s = l.strip()
            if re.match(r'(pub\s+)?(open\s+|closed\s+)?(proof\s+|spec\s+|exec\s+)?fn\s', s) or s.startswith('impl') or s.startswith('// ---- extracted'):
                return None
    return best


class UnitRun:
    def __init__(self, unit, repo, scratch, degrade=None):
        self.unit = unit
        self.repo = repo
        self.scratch = scratch
        self.gen, self.map = extract_unit(unit, repo, scratch, degrade)
        self.file = os.path.join(scratch, unit + '.rs')
        self.off = assemble(os.path.join(VERIF, 'spec', 'la.rs'), os.path.join(VERIF, 'spec', 'prelude.rs'), self.gen, self.file)['unit']
        self.text = open(self.file).read()
        self.lines = self.text.splitlines()
        self.markers = clause_markers(self.text)
        # function table: gen line ranges (in the assembled file)
        self.fns = []
        for f in self.map['functions']:
            g0, g1 = f['gen_lines']
            self.fns.append(dict(f, a0=g0 + self.off, a1=g1 + self.off))
        self.tok = {}
        for (gl, gc, fi, sl, sc) in self.map['tokens']:
            self.tok.setdefault(gl + self.off, []).append((gc, sl, sc))
        self.inj_proof = set(e['g'] + self.off for e in self.map['lines'] if e.get('inj') == 'proof')
        # header region of each function = from its "// ---- extracted" line to the body start
        self.hdr = {}
        for i, l in enumerate(self.lines):
            if l.startswith('// ---- extracted: '):
                mm = re.search(r'\bid=(\S+)', l)
                if mm:
                    self.hdr[mm.group(1)] = i + 1

    def fn_at(self, line):
        """function whose header+body contains this assembled-file line"""
        best = None
        for f in self.fns:
            h = self.hdr.get(f['id'], f['a0'])
            if h <= line <= f['a1']:
                best = f
        return best

    def repo_loc(self, line, col):
        ent = self.tok.get(line)
        if not ent:
            return None
        cand = [e for e in ent if e[0] <= col]
        e = max(cand) if cand else min(ent)
        return e[1]

    def fn_tags(self, f):
        return [t for t in (f.get('tags') or '').split(',') if t]

    def clause_tags_in_fn(self, f):
        h = self.hdr.get(f['id'], f['a0'])
        return [(ml, mc, mid, tags) for (ml, mc, mid, tags) in self.markers if h <= ml <= f['a1']]


def verify_unit(unit, repo, scratch, extra):
    """extract + verify; a body the verifier rejects outright (unsupported construct, type error after rewriting) is degraded
    to an assumed contract and the unit is verified again, so that the other functions stay decidable"""
    degrade = []
    for attempt in range(4):
        ur = UnitRun(unit, repo, scratch, degrade)
        res = verus(ur.file, scratch, list(extra))
        rc, r, diags, err, wall, cmd = res
        bad = []
        for d in diags:
            if d.get('level') != 'error':
                continue
            if classify(d.get('message', '')) is not None and not specless_index(d, ur):
                continue
            msg = d.get('message', '')
            if msg.startswith('aborting due to') or msg.startswith('For more information'):
                continue
            for sp in d.get('spans', []):
                if os.path.basename(sp['file_name']) != os.path.basename(ur.file):
                    continue
                f = ur.fn_at(sp['line_start'])
                # only errors inside an extracted BODY (not in its hand-written header) are the code's doing
                if f and not f.get('degraded') and sp['line_start'] >= f['a0'] and f['id'] not in degrade and f['id'] not in bad:
                    bad.append(f['id'])
        if not bad:
            return ur, res
        log('verifier rejected the body of %s: degraded, verifying the rest' % ', '.join(bad))
        degrade += bad
    return ur, res


def specless_index(d, ur):
    """`E[i]` on a type for which neither vstd nor the prelude has an index specification (e.g. a slice indexed by a range):
    Verus reports the unprovable generic `index_req` as a failed precondition. That is a missing specification, not a
    failed obligation of the code: the function is degraded (undecided). The prelude's own IndexSpecImpl is for
    DMatrix[(i, j)], recognised by the tuple index."""
    if 'precondition not satisfied' not in d.get('message', ''):
        return False
    in_vstd = any(sp.get('label') == 'failed precondition' and sp['file_name'].replace('\\', '/').endswith('std_specs/core.rs') for sp in d.get('spans', []))
    if not in_vstd:
        return False
    for sp in d.get('spans', []):
        if os.path.basename(sp['file_name']) == os.path.basename(ur.file) and sp.get('text'):
            t = sp['text'][0]
            frag = t['text'][max(0, t.get('highlight_start', 1) - 1):t.get('highlight_end', len(t['text']))]
            if re.search(r'\[\s*\(', frag):
                return False
    return True


def classify(msg):
    for pat, kind in FAIL_KINDS:
        if pat in msg:
            return kind
    return None


def analyse(ur, diags, res):
    """-> (failures, undecided_reasons). failure = dict(kind, clause, tags, fn, repo_file, repo_line, message, rendered)"""
    failures, undecided = [], []
    for d in diags:
        if d.get('level') != 'error':
            continue
        msg = d.get('message', '')
        if msg.startswith('aborting due to') or msg.startswith('For more information'):
            continue
        kind = classify(msg)
        low = (msg + ' ' + (d.get('rendered') or '')).lower()
        if any(u in low for u in ['rlimit exceeded', 'resource limit']):
            undecided.append('rlimit: ' + msg.strip() + ' :: ' + (d.get('rendered') or '')[:600])
            continue
        if kind is None:
            undecided.append(msg.strip() + ' :: ' + (d.get('rendered') or '')[:600])
            continue
        spans = d.get('spans', [])
        here = [s for s in spans if os.path.basename(s['file_name']) == os.path.basename(ur.file)]
        prim = [s for s in here if s.get('is_primary')] or here
        clause_span = None
        for s in here:
            lab = (s.get('label') or '')
            if 'failed this' in lab or 'failed precondition' in lab:
                clause_span = s
        body_span = None
        for s in prim:
            body_span = s
        f = None
        for s in ([body_span] if body_span else []) + here:
            f = ur.fn_at(s['line_start'])
            if f:
                break
        clause, tags = None, []
        if kind == 'pre' and body_span is not None and body_span['line_start'] in ur.inj_proof:
            kind = 'assert'   # a lemma call inside an injected proof block: part of the function's own proof
        if clause_span is not None and kind in ('post', 'inv', 'pre', 'closure-post'):
            m = nearest_marker(ur.markers, clause_span['line_start'], clause_span['column_start'], ur.lines)
            cf = ur.fn_at(clause_span['line_start'])
            if m and (cf is None or f is None or cf['id'] == f['id'] or kind in ('pre', 'closure-post')):
                clause, tags = m[2], list(m[3])
        if kind in ('inv',) and clause is None and body_span is not None:
            m = nearest_marker(ur.markers, body_span['line_start'], body_span['column_start'], ur.lines)
            if m:
                clause, tags = m[2], list(m[3])
        if kind in ('assert',) and body_span is not None and f is not None:
            # an assertion inside an injected proof block: its own marker if it has one (same proof block),
            # otherwise it belongs to all clauses of its function
            m = nearest_marker(ur.markers, body_span['line_start'], body_span['column_end'] if 'column_end' in body_span else body_span['column_start'], ur.lines)
            if m and m[0] in ur.inj_proof and body_span['line_start'] - m[0] <= 3:
                clause, tags = m[2], list(m[3])
            else:
                tags = sorted(set(t for (_, _, _, tg) in ur.clause_tags_in_fn(f) for t in tg))
                clause = f['id'] + '.proof'
        if kind in ('pre', 'arith', 'decreases', 'closure-post'):
            # safety obligations: C08 (never panics / terminates); a closure contract carries its function's tags
            if kind == 'closure-post' and f is not None:
                if not tags:
                    tags = sorted(set(ur.fn_tags(f)))
                clause = clause or (f['id'] + '.closure')
            else:
                extra = set((f.get('safety_tags') or '').split(',')) - {''} if f else set()
                tags = sorted(set(tags) | {'C08'} | extra)
                clause = clause or ((f['id'] if f else ur.unit) + '.' + kind)
        if f is None:
            # a failure outside every extracted function: a hand-written lemma of the unit. It depends on the contracts
            # only, never on /repo, so it cannot be a violation of the code: undecided.
            undecided.append('proof failure outside extracted code: ' + msg + ' :: ' + (d.get('rendered') or '')[:400])
            continue
        repo_line = None
        if body_span is not None:
            repo_line = ur.repo_loc(body_span['line_start'], body_span['column_start'])
        failures.append(dict(kind=kind, clause=clause or ((f['id'] if f else ur.unit) + '.' + kind), tags=tags,
                             fn=f['id'] if f else None, repo_file=f['file'] if f else None, repo_line=repo_line,
                             fn_repo_lines=f['repo_lines'] if f else None,
                             message=msg, rendered=d.get('rendered', '')))
    if res is None:
        undecided.append('verus produced no JSON result')
    else:
        vr = res.get('verification-results', {})
        if vr.get('encountered-vir-error'):
            undecided.append('verus reported a VIR error')
    return failures, undecided


def fn_breakdown(res):
    out = {}
    try:
        for m in res['times-ms']['smt']['smt-run-module-times']:
            for fb in m.get('function-breakdown', []):
                out[fb['function']] = fb
    except Exception:
        pass
    return out


def probe_variant(ur, only=None, tag=''):
    """every extracted body and loop body gets `assert(false);` at its start: each of them must FAIL.
    `only`: ordinals of the probes to enable (None = all)"""
    parts = ur.text.split('/*@probe*/')
    out = []
    for k, part in enumerate(parts[:-1]):
        out.append(part)
        out.append('assert(false);/*@probe*/' if (only is None or k in only) else '/*@probe-off*/')
    out.append(parts[-1])
    path = os.path.join(ur.scratch, ur.unit + '_probe%s.rs' % tag)
    open(path, 'w').write(''.join(out))
    return path, len(parts) - 1


def probe_depths(text):
    """nesting depth of every probe (0 = function body, 1 = loop in a function body, 2 = loop in a loop ...), by brace matching"""
    depths = []
    stack = []
    i, n = 0, len(text)
    while i < n:
        c = text[i]
        if c == '/' and text.startswith('/*@probe*/', i):
            # the probe belongs to the innermost open block: mark it
            if stack and not stack[-1]:
                stack[-1] = True
            depths.append(max(0, sum(1 for x in stack if x) - 1))
            i += len('/*@probe*/')
            continue
        if c == '/' and text.startswith('/*', i):
            k = text.find('*/', i + 2)
            i = n if k < 0 else k + 2
            continue
        if c == '/' and text.startswith('//', i):
            k = text.find('\n', i)
            i = n if k < 0 else k
            continue
        if c == '{':
            stack.append(False)
        elif c == '}':
            if stack:
                stack.pop()
        i += 1
    return depths


def check_probes(ur):
    """a probe that follows another failing probe in the same verification query (a loop body inside a function body: loops are
    not isolated) is trivially true once the first one has been reported; so the probes are checked per nesting depth, one
    Verus run per depth, in parallel"""
    depths = probe_depths(ur.text)
    n = len(depths)
    if n == 0:
        raise Undecided('vacuity guard: no probes generated for unit ' + ur.unit)
    levels = sorted(set(depths))

    def one(level):
        only = set(k for k, d in enumerate(depths) if d == level)
        path, _ = probe_variant(ur, only, '_%d' % level)
        rc, res, diags, err, wall, cmd = verus(path, ur.scratch)
        lines = open(path).read().splitlines()
        ordinals = {}
        k = 0
        for i, l in enumerate(lines):
            for m in re.finditer(r'assert\(false\);/\*@probe\*/|/\*@probe-off\*/', l):
                if m.group(0).startswith('assert'):
                    ordinals[i + 1] = k
                k += 1
        failed = set()
        for d in diags:
            if d.get('level') == 'error' and 'assertion failed' in d.get('message', ''):
                for sp in d.get('spans', []):
                    if sp['line_start'] in ordinals and sp.get('is_primary'):
                        failed.add(ordinals[sp['line_start']])
        missing = [(ln, o) for ln, o in ordinals.items() if o not in failed]
        return missing, wall

    with ThreadPoolExecutor(max_workers=len(levels)) as ex:
        outs = list(ex.map(one, levels))
    missing = [m for ms, _ in outs for m in ms]
    where = []
    for l, _o in sorted(missing):
        f = ur.fn_at(l)
        where.append(((f['id'] if f else '?'), l))
    # the caller decides: a probe that does not fail inside a function for which the main run reports a failed obligation is
    # explained by that failure (a loop whose invariant already fails on entry has a contradictory body context)
    return n - len(missing), max(w for _, w in outs), where, n


def check_la(scratch):
    la = os.path.join(VERIF, 'spec', 'la.rs')
    shutil.copy(la, os.path.join(scratch, 'la.rs'))
    rc, out, err, wall = run(['verus', 'la.rs', '--crate-type=lib', '--no-cheating', '--output-json', '--time'], cwd=scratch, timeout=900)
    try:
        res = json.loads(out)
        vr = res['verification-results']
    except Exception:
        raise Undecided('la.rs: verus gave no result: ' + err[-500:])
    if rc != 0 or vr.get('errors', 1) != 0 or vr.get('verified', 0) == 0:
        raise Undecided('guard 0: la.rs does not verify under --no-cheating (%s)' % json.dumps(vr))
    return vr['verified'], wall


def known_findings():
    p = os.path.join(VERIF, 'known_findings.txt')
    out = []
    if os.path.exists(p):
        for l in open(p):
            l = l.strip()
            if l.startswith('finding:'):
                kv = dict(re.findall(r'(\w+)=("[^"]*"|\S+)', l))
                kv = {k: v.strip('"') for k, v in kv.items()}
                kv['raw'] = l
                out.append(kv)
    return out


def out_dir(repo):
    """evidence and replay files of a run against /repo go to /verif; a run against any other tree (--repo: scratch copies
    used to try the checks on changed code) must not touch the committed evidence"""
    if os.path.realpath(repo) == os.path.realpath('/repo'):
        return VERIF
    return os.environ.get('VP_ALT_OUT', '/tmp/vp-alt-out')


def source_line(repo, f, line):
    try:
        return open(os.path.join(repo, f)).read().splitlines()[line - 1].strip()
    except Exception:
        return ''


def main(argv):
    t0 = time.time()
    if not argv:
        print(__doc__)
        return 2
    pid = argv[0]
    if pid == '--all':
        return main_all(argv[1:])
    tier = os.environ.get('VERIF_TIER', 'quick')
    repo = '/repo'
    keep = False
    i = 1
    while i < len(argv):
        if argv[i] == '--tier':
            tier = argv[i + 1]; i += 2
        elif argv[i] == '--repo':
            repo = argv[i + 1]; i += 2
        elif argv[i] == '--keep':
            keep = True; i += 1
        else:
            i += 1
    seed = int(os.environ.get('VERIF_SEED', '0') or 0)
    props = load_props()
    if pid not in props:
        print('unknown or unclaimed property', pid)
        return 2
    P = props[pid]
    scratch = tempfile.mkdtemp(prefix='vpcheck-%s-' % pid)
    ev_path = os.path.join(out_dir(repo), 'evidence', pid + '.json')
    os.makedirs(os.path.dirname(ev_path), exist_ok=True)
    try:
        if os.path.exists(ev_path):
            os.remove(ev_path)
    except Exception:
        pass
    try:
        return _main(pid, P, tier, repo, seed, scratch, ev_path, t0)
    except Undecided as e:
        return unit_fallback(pid, P, tier, seed, repo, e, ev_path, t0, None)
    except Exception as e:   # a defect of the checker itself is never an alarm
        import traceback
        traceback.print_exc()
        print('UNDECIDED property=%s: internal error of the checker (%s: %s)' % (pid, type(e).__name__, str(e)[:300]))
        return 2
    finally:
        if not keep:
            shutil.rmtree(scratch, ignore_errors=True)
        else:
            log('scratch kept at', scratch)


def unit_fallback(pid, P, tier, seed, repo, e, ev_path, t0, cache):
    """a unit whose extraction fails as a whole (lost struct anchor, ...) has no function left to verify: the concrete oracle
    sweeps are its bounded stand-in (a finding tagged with this property refutes it; a clean sweep leaves it undecided)"""
    hits, runs = [], []
    if 'extraction of unit' in str(e) and os.environ.get('VP_NO_SWEEP') != '1':
        try:
            import vpreplay
            scen = []
            for u in P.get('units', []):
                for sc in {'model': [['model_sweep']], 'core': [['algebra_sweep'], ['stats_sweep'], ['nonfinite_derivative_stats']]}.get(u, []):
                    if sc not in scen:
                        scen.append(sc)
            key = ('sweep', tuple(tuple(x) for x in scen))
            if scen:
                if cache is not None and key in cache:
                    runs = cache[key]
                else:
                    runs = vpreplay.run_scenarios(repo, scen)[0]
                    if cache is not None:
                        cache[key] = runs
            hits = [(str(r.get('scenario') or '-'), fd) for r in runs for fd in r.get('findings', []) if pid in fd.get('tags', [])]
        except Exception as e2:
            log('sweep fallback failed:', e2)
    if hits:
        os.makedirs(os.path.join(out_dir(repo), 'replay'), exist_ok=True)
        for k, (sc, fd) in enumerate(hits):
            rp = os.path.join(out_dir(repo), 'replay', '%s-sweep.%s.%d.json' % (pid, sc.split()[0], k + 1))
            with open(rp, 'w') as fh:
                json.dump({'property': pid, 'failed_obligation': 'sweep.%s.%d' % (sc.split()[0], k + 1), 'kind': 'sweep-bounded',
                           'verifier_message': 'nothing could be verified (%s); bounded stand-in: concrete oracle sweep %s' % (e, sc),
                           'counterexample': [fd['text']], 'failing_input_reproduced': True,
                           'replay_cmd': 'build replay/drivers/vp_replay.rs against a scratch copy of the tree; run: vp_replay ' + sc}, fh, indent=1)
            print('VIOLATION property=%s replay=%s' % (pid, rp))
            print('  bounded stand-in (concrete oracle sweep %s): %s' % (sc, fd['text'][:300]))
        write_evidence(ev_path, pid, tier, seed, P, dict(obligations=0, discharged=0, undecided=str(e),
                       bounded_checks=[dict(name='sweep ' + str(r.get('scenario') or '-'), status=r['outcome']) for r in runs]), t0, violations=len(hits), undecided=True)
        return 1
    print('UNDECIDED property=%s: %s%s' % (pid, e, (' -- concrete oracle sweeps found nothing for this property: ' + ', '.join(str(r.get('scenario') or '-') for r in runs)) if runs else ''))
    write_evidence(ev_path, pid, tier, seed, P, dict(obligations=0, discharged=0, undecided=str(e)), t0, undecided=True)
    return 2


def write_evidence(path, pid, tier, seed, P, cov, t0, violations=0, undecided=False):
    ev = {
        'property_id': pid, 'tier': tier, 'seed': seed, 'level': P.get('level', 'proof'),
        'coverage': cov,
        'assumptions': cov.get('trusted_base', []) + P.get('assumptions', []),
        'wall_s': round(time.time() - t0, 2),
        'violations': violations,
    }
    if undecided:
        ev['coverage'].setdefault('explanation', 'run was undecided; nothing is claimed')
    with open(path, 'w') as f:
        json.dump(ev, f, indent=1)


_ITEM_RE = re.compile(r'^\s*(?:pub(?:\([a-z]+\))?\s+)?(?:open\s+|closed\s+|uninterp\s+|broadcast\s+)*(?:spec\s+|proof\s+|exec\s+|const\s+)*fn\s+([A-Za-z_0-9]+)')
_TOK_RE = re.compile(r'[A-Za-z_][A-Za-z_0-9]*')


def _items(text):
    """(name, is_spec, text) of every fn item of a source text (an item ends where the next fn item starts, or at a line that
    starts a non-fn item: coarse, over-approximating)"""
    lines = text.splitlines()
    starts = []
    stop = re.compile(r'^\s*(pub\s+)?(struct|enum|impl|trait|macro_rules!|mod|use|const|type)\b|^\s*[a-z_]+!\(|^\s*// =====')
    for i, l in enumerate(lines):
        m = _ITEM_RE.match(l)
        if m:
            starts.append((i, m.group(1), bool(re.search(r'\b(spec|proof)\s+fn\b', l))))
    out = []
    for k, (i, name, is_spec) in enumerate(starts):
        j = starts[k + 1][0] if k + 1 < len(starts) else len(lines)
        for q in range(i + 1, j):
            if stop.match(lines[q]):
                j = q
                break
        out.append((name, is_spec, '\n'.join(lines[i:j])))
    return out


def reachable_assumptions(urs, pid, pre_assumptions):
    """the assumed prelude items that the functions / corollaries tagged with the property can reach by name: executable
    prelude items when a function of the property (or a unit function it calls) names them; specification items (uninterpreted
    functions, axioms) transitively. Unnamed assumed items are always kept. Name-based, hence an over-approximation."""
    prelude_text = open(os.path.join(VERIF, 'spec', 'prelude.rs')).read()
    pre_items = _items(prelude_text)
    unit_items = []
    seeds = []
    for ur in urs:
        lines = ur.text.splitlines()
        unit_items += _items('\n'.join(lines[ur.off:]))
        for f in ur.fns:
            if pid == 'C08' or any(pid in tags for (_, _, _, tags) in ur.clause_tags_in_fn(f)):
                h = ur.hdr.get(f['id'], f['a0'])
                seeds.append('\n'.join(lines[max(0, h - 1):f['a1'] + 1]))
        for (ml, mc, mid, tags) in ur.markers:
            if ml > ur.off and pid in tags and not ur.fn_at(ml):
                seeds.append('\n'.join(lines[max(0, ml - 12):ml + 40]))
    direct = set()
    for t in seeds:
        direct |= set(_TOK_RE.findall(t))
    # unit items (extracted functions calling each other, the unit's own spec functions and lemmas): followed fully
    by_unit = {}
    for n, sp, t in unit_items:
        by_unit.setdefault(n, []).append(t)
    seen = set()
    work = [n for n in by_unit if n in direct]
    while work:
        n = work.pop()
        if n in seen:
            continue
        seen.add(n)
        for t in by_unit[n]:
            new = set(_TOK_RE.findall(t)) - direct
            direct |= new
            work += [m for m in new if m in by_unit and m not in seen]
    # prelude: executable items only when named directly; specification items transitively
    toks = set(direct)
    spec_items = {}
    exec_text = {}
    for n, sp, t in pre_items:
        (spec_items if sp else exec_text).setdefault(n, []).append(t)
    for n in list(exec_text):
        if n in direct:
            for t in exec_text[n]:
                toks |= set(_TOK_RE.findall(t))
    seen = set()
    work = [n for n in spec_items if n in toks]
    while work:
        n = work.pop()
        if n in seen:
            continue
        seen.add(n)
        for t in spec_items[n]:
            new = set(_TOK_RE.findall(t)) - toks
            toks |= new
            work += [m for m in new if m in spec_items and m not in seen]
    keep = []
    for a in pre_assumptions:
        head = a.split(' (prelude.rs')[0]
        names = _TOK_RE.findall(head)
        if head.startswith('external_body') or not names:
            keep.append(a)
        elif head.startswith('fn ') and names[-1] in exec_text and names[-1] not in spec_items:
            if names[-1] in direct:
                keep.append(a)
        elif names[-1] in toks:
            keep.append(a)
    return keep


def _main(pid, P, tier, repo, seed, scratch, ev_path, t0):
    import vpkani
    units = P.get('units', [])
    pre_assumptions = scan_prelude(os.path.join(VERIF, 'spec', 'prelude.rs'))
    urs = []
    cache = _CACHE if _CACHE is not None else {}
    with ThreadPoolExecutor(max_workers=8) as ex:
        if 'la' not in cache:
            cache['la'] = ex.submit(check_la, scratch)
        extra = []
        if seed:
            extra += ['--smt-option', 'smt.random_seed=%d' % (seed % 100000)]
        if tier == 'thorough':
            extra += ['--rlimit', '40']
        pend = {}
        for u in units:
            if ('ur', u) not in cache:
                pend[u] = ex.submit(verify_unit, u, repo, scratch, list(extra))
        for u, fut in pend.items():
            ur, res = fut.result()
            cache[('ur', u)] = ur
            f2 = ex.submit(lambda r=res: r)
            cache[('verus', u)] = f2
            cache[('probe', u)] = ex.submit(check_probes, ur)
        for u in units:
            urs.append(cache[('ur', u)])
        kfut = ex.submit(vpkani.run_harnesses, P, tier, repo, pid)
        la_verified, la_wall = cache['la'].result()
        results = [cache[('verus', u)].result() for u in units]
        probes = [cache[('probe', u)].result() for u in units]
        kani = kfut.result()

    # functions the extractor had to degrade (lost anchor / unsupported construct): their clauses are undecided for this
    # run; a bounded Kani stand-in, where one exists, can still REFUTE them (never prove them)
    degraded_relevant = []
    for ur in urs:
        for f in ur.fns:
            if not f.get('degraded'):
                continue
            tags_here = set(t for (_, _, _, tg) in ur.clause_tags_in_fn(f) for t in tg) | set(ur.fn_tags(f))
            if pid in tags_here or pid == 'C08':
                degraded_relevant.append((ur, f))
    fb_res = None
    sweep_runs = []
    if degraded_relevant and os.environ.get('VP_NO_SWEEP') != '1':
        import vpreplay
        scen = vpreplay.sweeps_for([f['id'] for _, f in degraded_relevant])
        key = ('sweep', tuple(tuple(x) for x in scen))
        if scen:
            if key not in cache:
                try:
                    cache[key] = vpreplay.run_scenarios(repo, scen)[0]
                except Exception as e:
                    cache[key] = [dict(scenario='-', outcome='sweep driver error: %s' % e, findings=[], reproduced=False)]
            sweep_runs = cache[key]
    if degraded_relevant:
        names = []
        for (_, f) in degraded_relevant:
            names += [n for n in vpkani.FALLBACK.get(f['id'], []) if n not in names]
        if names:
            fb_res = vpkani.run_harnesses({'kani': {'quick': names}}, 'quick', repo, pid)

    # thorough tier: the concrete oracle sweeps that can name this property also run when every function verifies -- a bounded
    # net under the contracts (a clause that is too weak to see a change), labelled bounded, never counted as an obligation
    thorough_sweeps = []
    if tier == 'thorough' and os.environ.get('VP_NO_SWEEP') != '1':
        import vpreplay
        scen = [sc for sc in vpreplay.SWEEPS_NAMING.get(pid, []) if not any(r.get('scenario') == ' '.join(sc) for r in sweep_runs)]
        if scen:
            key = ('sweep', tuple(tuple(x) for x in scen))
            if key not in cache:
                try:
                    cache[key] = vpreplay.run_scenarios(repo, scen)[0]
                except Exception as e:
                    cache[key] = [dict(scenario='-', outcome='sweep driver error: %s' % e, findings=[], reproduced=False)]
            thorough_sweeps = cache[key]

    obligations, discharged = 0, 0
    samples, fn_list, rewrites, solver_ms = [], [], {}, {}
    violations = []   # (failure dict, unit)
    undecided = []
    checker_cmds = []
    for ui, (ur, (rc, res, diags, err, wall, cmd)) in enumerate(zip(urs, results)):
        checker_cmds.append(cmd)
        failures, und = analyse(ur, diags, res)
        n_rl = sum(1 for x in und if x.startswith('rlimit:'))
        if n_rl:
            # a query that ran out of resources is re-run once (whole unit, other seed, six times the resource limit); the
            # re-run replaces the first run when fewer queries run out: it is the same text checked by the same verifier
            key = ('rerun-rlimit', ur.unit)
            if key not in cache:
                cache[key] = verus(ur.file, scratch, ['--smt-option', 'smt.random_seed=%d' % ((seed + 104729) % 100000), '--rlimit', '60'])
            rc2, res2, diags2, err2, wall2, cmd2 = cache[key]
            f2, und2 = analyse(ur, diags2, res2)
            if res2 is not None and sum(1 for x in und2 if x.startswith('rlimit:')) < n_rl:
                rc, res, diags, err, wall, cmd = rc2, res2, diags2, err2, wall + wall2, cmd2
                failures, und = f2, und2
                checker_cmds[-1] = cmd
        undecided += und
        # vacuity guard: every reachability probe must fail, except inside a function that already has a failed obligation
        unexplained = [(fid, l) for (fid, l) in probes[ui][2] if not any(f.get('fn') == fid for f in failures)]
        if unexplained:
            raise Undecided('vacuity guard: %d of %d reachability probes did not fail (contradictory precondition/invariant/axioms?): %s'
                            % (len(unexplained), probes[ui][3], ', '.join('%s@gen:%d' % x for x in unexplained[:5])))
        fb = fn_breakdown(res) if res else {}
        vr = (res or {}).get('verification-results', {})
        if res is None or (vr.get('verified', 0) == 0 and not failures):
            undecided.append('unit %s: nothing was verified (%s)' % (ur.unit, err[-300:]))
        # a failing clause is re-run once with another seed and a doubled rlimit; reported only if it fails again
        mine = [f for f in failures if pid in f['tags']]
        if mine:
            rc2, res2, diags2, err2, wall2, cmd2 = verus(ur.file, scratch, ['--smt-option', 'smt.random_seed=%d' % ((seed + 7919) % 100000), '--rlimit', '20'])
            f2, und2 = analyse(ur, diags2, res2)
            keys2 = set((f['clause'], f['kind']) for f in f2 if pid in f['tags'])
            still = [f for f in mine if (f['clause'], f['kind']) in keys2]
            if not still:
                undecided.append('unstable proof: %s failed once and verified on the re-run' % ', '.join(sorted(set(f['clause'] for f in mine))))
            mine = still
        failed_clauses = set(f['clause'] for f in mine)
        # obligations: every clause marker tagged with this property inside a function of this unit,
        # plus (for C08) one safety obligation set per function under contract
        for f in ur.fns:
            tagged = [(mid, tags) for (_, _, mid, tags) in ur.clause_tags_in_fn(f) if pid in tags]
            safety = (pid == 'C08')
            if not tagged and not safety:
                continue
            fn_list.append('%s (%s:%d-%d)' % (f['id'], f['file'], f['repo_lines'][0], f['repo_lines'][1]))
            rewrites[f['id']] = sorted(set(r['rule'] for r in f['rewrites']))
            for (mid, tags) in tagged:
                obligations += 1
                if mid not in failed_clauses and not any(x['fn'] == f['id'] and x['clause'].endswith('.proof') for x in mine):
                    discharged += 1
                if len(samples) < 12:
                    samples.append(clause_text(ur, mid))
            if safety:
                obligations += 1
                if not any(x['fn'] == f['id'] and x['kind'] in ('pre', 'arith', 'decreases') for x in mine):
                    discharged += 1
        # markers outside extracted functions (hand-written corollary lemmas of the unit)
        for (ml, mc, mid, tags) in ur.markers:
            if ml <= ur.off or pid not in tags or ur.fn_at(ml):
                continue
            obligations += 1
            if mid not in failed_clauses:
                discharged += 1
            if len(samples) < 12:
                samples.append(clause_text(ur, mid))
        for name, b in fb.items():
            if name.startswith('core::unit::') or '::unit::' in name:
                solver_ms[name.split('::unit::')[-1]] = b.get('time', 0)
        for f in mine:
            violations.append((f, ur))
    if degraded_relevant:
        failed_fb = [h for h in (fb_res or {}).get('harnesses', []) if h['status'] == 'FAILURE']
        for h in failed_fb:
            violations.append((dict(kind='kani-bounded', clause='kani.' + h['name'], tags=[pid], fn=h['name'], repo_file=h.get('file'),
                                    repo_line=None, fn_repo_lines=None,
                                    message='bounded Kani stand-in %s failed (the function could not be verified deductively: %s)' % (h['name'], '; '.join(f['degraded'] for _, f in degraded_relevant)[:300]),
                                    rendered=h.get('output_tail', ''), concrete=h.get('failed_checks')), None))
        # bounded stand-in 2: the concrete oracle sweeps of the replay driver (a finite set of inputs against independent
        # formulas); a finding tagged with this property refutes it with a concrete failing input, a clean sweep proves nothing
        sweep_hits = [(str(r.get('scenario') or '-'), fd) for r in sweep_runs for fd in r.get('findings', []) if pid in fd.get('tags', [])]
        for k, (sc, fd) in enumerate(sweep_hits):
            violations.append((dict(kind='sweep-bounded', clause='sweep.%s.%d' % (sc.split()[0], k + 1), tags=[pid], fn=';'.join(f['id'] for _, f in degraded_relevant)[:200],
                                    repo_file=degraded_relevant[0][1].get('file'), repo_line=None, fn_repo_lines=None,
                                    message='bounded stand-in (concrete oracle sweep %s) for a function that could not be verified (%s): %s' % (sc, '; '.join(f['id'] for _, f in degraded_relevant)[:200], fd['text']),
                                    rendered=fd['text'], concrete=[fd['text']]), None))
        if not failed_fb and not sweep_hits:
            undecided.append('not verified (degraded to an assumed contract): ' + '; '.join('%s: %s' % (f['id'], f['degraded']) for _, f in degraded_relevant)[:1500]
                             + (' -- bounded stand-ins passed: ' + ','.join(h['name'] for h in fb_res['harnesses']) if fb_res and fb_res.get('harnesses') else '')
                             + (' -- concrete oracle sweeps found nothing for this property: ' + ', '.join(str(r.get('scenario') or '-') for r in sweep_runs) if sweep_runs else ''))
    for k, (sc, fd) in enumerate([(str(r.get('scenario') or '-'), fd) for r in thorough_sweeps for fd in r.get('findings', []) if pid in fd.get('tags', [])]):
        violations.append((dict(kind='sweep-bounded', clause='sweep.%s.t%d' % ((sc or '-').split()[0], k + 1), tags=[pid], fn='-', repo_file=None, repo_line=None, fn_repo_lines=None,
                                message='thorough tier, bounded check (concrete oracle sweep %s): %s' % (sc, fd['text']), rendered=fd['text'], concrete=[fd['text']]), None))
    # Kani part
    kres = kani
    for h in kres.get('harnesses', []):
        if h['kind'] == 'complete':
            obligations += 1
            if h['status'] == 'SUCCESS':
                discharged += 1
            elif h['status'] == 'FAILURE':
                violations.append((dict(kind='kani', clause='kani.' + h['name'], tags=[pid], fn=h['name'], repo_file=h.get('file'),
                                        repo_line=None, fn_repo_lines=None, message='Kani harness %s failed' % h['name'],
                                        rendered=h.get('output_tail', ''), concrete=h.get('concrete')), None))
            else:
                undecided.append('kani harness %s: %s' % (h['name'], h['status']))
        else:
            if h['status'] == 'FAILURE':
                violations.append((dict(kind='kani-bounded', clause='kani.' + h['name'], tags=[pid], fn=h['name'], repo_file=h.get('file'),
                                        repo_line=None, fn_repo_lines=None, message='bounded Kani harness %s failed' % h['name'],
                                        rendered=h.get('output_tail', ''), concrete=h.get('concrete')), None))
            elif h['status'] != 'SUCCESS':
                undecided.append('kani harness %s: %s' % (h['name'], h['status']))

    cov = {
        'obligations': obligations, 'discharged': discharged,
        'checker_cmd': ' ; '.join(checker_cmds + kres.get('cmds', [])) or 'none',
        'trusted_base': reachable_assumptions(urs, pid, pre_assumptions) + P.get('trusted_base', []) + GLOBAL_ASSUMPTIONS,
        'prelude_assumed_items_total': len(pre_assumptions),
        'functions_under_contract': fn_list,
        'rewrites_applied': rewrites,
        'backend': 'verus 0.2026.09.13 / z3' + (' ; kani 0.68 / cbmc 6.11' if kres.get('harnesses') else ''),
        'solver_ms': solver_ms,
        'la_lemmas_verified_no_cheating': la_verified,
        'vacuity_probes_failed_as_required': sum(p[0] for p in probes),
        'bounded_checks': [dict(name=h['name'], bound=h.get('bound', ''), status=h['status']) for h in kres.get('harnesses', []) if h['kind'] != 'complete']
                          + [dict(name='sweep ' + str(r.get('scenario') or '-'), bound='fixed finite set of concrete problems against an independent oracle (replay/drivers/vp_replay.rs)', status=r['outcome']) for r in sweep_runs + thorough_sweeps],
        'complete_kani_harnesses': [dict(name=h['name'], status=h['status']) for h in kres.get('harnesses', []) if h['kind'] == 'complete'],
        'not_decided': P.get('not_decided', []),
        'assumed_from_dependency': P.get('assumed_from_dependency', []),
        'samples': samples,
        'rule': 'one obligation per contract clause tagged with the property (postcondition, loop invariant, lemma) in the functions listed; for C08 additionally one safety-obligation set (call preconditions, arithmetic, termination) per function; complete Kani harnesses count one each; bounded ones never count',
    }
    if undecided and not violations:
        print('UNDECIDED property=%s: %s' % (pid, ' | '.join(undecided)[:2000]))
        cov['undecided'] = undecided
        write_evidence(ev_path, pid, tier, seed, P, cov, t0, undecided=True)
        return 2
    if obligations == 0:
        raise Undecided('vacuity guard: no obligation is tagged with %s' % pid)
    want = P.get('min_obligations')
    if want and obligations < want:
        raise Undecided('vacuity guard: %d obligations found, contract table declares at least %d' % (obligations, want))

    # report
    kf = known_findings()
    nviol = 0
    os.makedirs(os.path.join(out_dir(repo), 'replay'), exist_ok=True)
    seen = set()
    for (f, ur) in violations:
        key = (f['clause'], f['kind'])
        if key in seen:
            continue
        seen.add(key)
        src = source_line(repo, f['repo_file'], f['repo_line']) if f.get('repo_file') and f.get('repo_line') else ''
        matched = None
        for k in kf:
            if k.get('property') == pid and k.get('clause') == f['clause'] and (not k.get('src') or re.sub(r'\s+', '', k['src']) in re.sub(r'\s+', '', src)):
                matched = k
        if matched:
            print('KNOWN-FINDING: property=%s %s' % (pid, matched.get('what', matched['raw'])))
            continue
        nviol += 1
        rp = os.path.join(out_dir(repo), 'replay', '%s-%s.json' % (pid, re.sub(r'[^A-Za-z0-9_.\-]', '_', f['clause'])))
        import vpreplay
        rep = vpreplay.make_replay(pid, f, repo, src, ur)
        with open(rp, 'w') as fh:
            json.dump(rep, fh, indent=1)
        tail = '' if rep.get('failing_input_reproduced') else ' no-failing-input-found'
        print('VIOLATION property=%s replay=%s%s' % (pid, rp, tail))
        log('  clause %s (%s) %s:%s  %s' % (f['clause'], f['kind'], f.get('repo_file'), f.get('repo_line'), src))
    cov['failed_clauses'] = sorted(set(f['clause'] for f, _ in violations))
    write_evidence(ev_path, pid, tier, seed, P, cov, t0, violations=nviol)
    if nviol:
        return 1
    print('OK property=%s obligations=%d discharged=%d wall=%.1fs' % (pid, obligations, discharged, time.time() - t0))
    return 0


def clause_text(ur, mid):
    for (ml, mc, cid, tags) in ur.markers:
        if cid == mid:
            txt = ur.lines[ml - 1][mc:].strip()
            j = ml
            while len(txt) < 160 and j < len(ur.lines) and not MARK.search(ur.lines[j]) and ur.lines[j].strip() and not ur.lines[j].strip().startswith(('{', '//')):
                txt += ' ' + ur.lines[j].strip()
                j += 1
            return txt[:400]
    return mid


def main_all(argv):
    """development / acceptance helper: decide every claimed property from ONE verification run of each unit"""
    global _CACHE
    repo = '/repo'
    only = None
    i = 0
    while i < len(argv):
        if argv[i] == '--repo':
            repo = argv[i + 1]; i += 2
        elif argv[i] == '--only':
            only = argv[i + 1].split(','); i += 2
        else:
            i += 1
    props = load_props()
    scratch = tempfile.mkdtemp(prefix='vpcheck-all-')
    _CACHE = {}
    out = {}
    evdir = tempfile.mkdtemp(prefix='vpcheck-ev-')
    try:
        import io, contextlib
        for pid in sorted(props):
            if only and pid not in only:
                continue
            buf = io.StringIO()
            t0 = time.time()
            try:
                with contextlib.redirect_stdout(buf):
                    rc = _main(pid, props[pid], 'quick', repo, 0, scratch, os.path.join(evdir, pid + '.json'), t0)
            except Undecided as e:
                with contextlib.redirect_stdout(buf):
                    rc = unit_fallback(pid, props[pid], 'quick', 0, repo, e, os.path.join(evdir, pid + '.json'), t0, _CACHE)
            except Exception as e:   # a defect of the checker itself is never an alarm
                rc = 2
                buf.write('UNDECIDED property=%s: internal error of the checker (%s: %s)' % (pid, type(e).__name__, str(e)[:200]))
            out[pid] = rc
            txt = buf.getvalue().strip().replace('\n', ' | ')
            print('%s rc=%d %s' % (pid, rc, txt[:300]))
    finally:
        shutil.rmtree(scratch, ignore_errors=True)
        shutil.rmtree(evdir, ignore_errors=True)
    return 0
