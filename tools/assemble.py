#!/usr/bin/env python3
"""assemble la + prelude (+ unit) into one single-file crate for verus; prints line offsets"""
import sys, json
def assemble(la, pre, unit, out):
    hdr = "#![allow(unused_imports, non_snake_case, dead_code, unused_variables, non_camel_case_types, non_upper_case_globals, unused_mut, unused_parens, unused_braces)]\nuse vstd::prelude::*;\n"
    parts = [hdr, "pub mod la {\n", open(la).read(), "\n}\npub mod prelude {\n", open(pre).read(), "\n}\n"]
    off = {}
    text = ""
    for p in parts: text += p
    if unit:
        text += "pub mod unit {\n"
        off['unit'] = text.count("\n")
        text += open(unit).read() + "\n}\n"
    text += "fn main(){}\n"
    open(out, 'w').write(text)
    return off
if __name__ == '__main__':
    la, pre, unit, out = sys.argv[1:5]
    print(json.dumps(assemble(la, pre, unit if unit != '-' else None, out)))
