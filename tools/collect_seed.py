#!/usr/bin/env python3
"""collect_seed.py <ID> <srcdir> <confirm-log-line> : stores a confirmed seeded change under /verif/seeded/<ID>/ with meta.json
(incl. the verdict of every check on the changed tree)"""
import sys, os, re, json, shutil, subprocess
V = os.path.dirname(os.path.dirname(os.path.abspath(__file__)))
sid, src, confirm = sys.argv[1], sys.argv[2], sys.argv[3]
prop = sid.split('-')[0]
dst = os.path.join(V, 'seeded', sid)
os.makedirs(dst, exist_ok=True)
shutil.copy(os.path.join(src, 'patch.diff'), os.path.join(dst, 'patch.diff'))
demo = [f for f in os.listdir(src) if f.endswith('.rs')][0]
shutil.copy(os.path.join(src, demo), os.path.join(dst, 'seed_demo.rs'))
readme = open(os.path.join(src, 'README.md')).read() if os.path.exists(os.path.join(src, 'README.md')) else ''
m = re.search(r'^#+\s*What is needed[^\n]*\n(.*?)(?=^#+\s|\Z)', readme, re.S | re.M)
needs = (m.group(1).strip()[:1500] if m else None)
r = subprocess.run([os.path.join(V, 'tools', 'seedtest.sh'), os.path.join(dst, 'patch.diff')], capture_output=True, text=True)
verdict = {}
for l in r.stdout.splitlines():
    m = re.match(r'(C\d+) rc=(\d) (.*)', l)
    if m:
        clauses = sorted(set(re.findall(r'replay=\S*/replay/C\d+-([A-Za-z0-9_.\-]+)\.json', m.group(3))))
        verdict[m.group(1)] = {'exit': int(m.group(2)), 'failed_obligations': clauses} if int(m.group(2)) == 1 else {'exit': int(m.group(2)), 'note': m.group(3)[:200] if int(m.group(2)) == 2 else ''}
meta = {
    'id': sid, 'breaks_property': prop,
    'written_by': 'independent sub-agent that saw only the text of the property and its own scratch worktree',
    'needs_to_manifest': needs,
    'agent_readme': readme[:6000],
    'confirmed_by_me': {'in': 'fresh scratch worktree of /repo HEAD (tools/confirm_seed.sh)', 'result': confirm},
    'commands': ['git apply patch.diff', 'cargo build --offline --features parallel', 'cargo nextest run --workspace --offline (75 pass)',
                 'cargo test --offline --test seed_demo (fails with the change, passes after git apply -R)'],
    'checks_on_changed_tree': verdict,
    'caught_by_target_check': verdict.get(prop, {}).get('exit') == 1,
    'caught_by': sorted(k for k, v in verdict.items() if v.get('exit') == 1),
}
json.dump(meta, open(os.path.join(dst, 'meta.json'), 'w'), indent=1)
print(sid, 'target caught:', meta['caught_by_target_check'], 'caught by:', meta['caught_by'])
