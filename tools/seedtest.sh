#!/bin/bash
# usage: seedtest.sh <patch.diff> [--only C01,C02]   -- applies the patch to a scratch copy of /repo HEAD and runs every check
set -e
P=$1; shift
S=$(mktemp -d /tmp/vpseed-XXXX)
git -C /repo archive HEAD | tar -x -C $S
(cd $S && git init -q . && git apply --whitespace=nowarn $P) || { echo "PATCH DOES NOT APPLY"; rm -rf $S; exit 3; }
VP_NO_REPLAY=${VP_NO_REPLAY:-1} $(cd $(dirname $0)/.. && pwd)/check --all --repo $S "$@" 2>&1 | grep -E "^C[0-9]+ rc=|UNDECIDED" | cut -c1-260
rm -rf $S
