#!/bin/bash
# usage: confirm_seed.sh <ID> <outdir-with-patch.diff-and-demo> ; confirms a seeded change in a fresh scratch worktree of /repo
ID=$1; SRC=$2
W=/tmp/seedc/$ID
export CARGO_TARGET_DIR=/tmp/seedc/target CARGO_NET_OFFLINE=true
mkdir -p /tmp/seedc
git -C /repo worktree remove --force $W 2>/dev/null
git -C /repo worktree add -q --detach $W HEAD || exit 3
cd $W
DEMO=$(ls $SRC | grep -E "\.rs$" | head -1)
git apply --whitespace=nowarn $SRC/patch.diff || { echo "RESULT $ID patch-does-not-apply"; exit 3; }
cargo build --offline --features parallel >/dev/null 2>&1 && B=compiles || B=DOES-NOT-COMPILE
cargo nextest run --workspace --no-fail-fast --test-threads 8 --offline > $W/_suite.log 2>&1; tail -3 $W/_suite.log | grep -q "75 passed" && S="suite-75-pass" || S="SUITE-FAILS($(grep -E 'Summary' $W/_suite.log | tail -1))"
cp $SRC/$DEMO tests/seed_demo.rs
FEAT=""; grep -q 'cfg(feature = "parallel")' tests/seed_demo.rs && FEAT="--features parallel"
cargo test --offline $FEAT --test seed_demo > $W/_demo_with.log 2>&1 && DW="DEMO-PASSES-WITH-CHANGE" || DW="demo-fails-with-change"
grep -q "running 0 tests" $W/_demo_with.log && DW="DEMO-RAN-0-TESTS"
git apply -R --whitespace=nowarn $SRC/patch.diff
cargo test --offline $FEAT --test seed_demo > $W/_demo_without.log 2>&1 && DO="demo-passes-without-change" || DO="DEMO-FAILS-WITHOUT-CHANGE"
echo "RESULT $ID $B $S $DW $DO"
cd /; git -C /repo worktree remove --force $W
