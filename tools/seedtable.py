#!/usr/bin/env python3
"""writes seeded/README.md from seeded/*/meta.json (which checks catch which independently written changes)"""
import json, os, glob, re
V = os.path.dirname(os.path.dirname(os.path.abspath(__file__)))
WHY = json.load(open(os.path.join(V, 'seeded', 'notes.json'))) if os.path.exists(os.path.join(V, 'seeded', 'notes.json')) else {}
rows = []
for p in sorted(glob.glob(os.path.join(V, 'seeded', '*', 'meta.json'))):
    m = json.load(open(p))
    sid = m['id']
    v = m.get('checks_on_changed_tree', {})
    tgt = v.get(m['breaks_property'], {})
    outcome = {1: 'VIOLATION (caught)', 2: 'undecided (exit 2)', 0: 'passes (missed)'}.get(tgt.get('exit'), '?')
    fo = tgt.get('failed_obligations', [])
    if tgt.get('exit') == 1 and fo and all(x.startswith('sweep.') for x in fo):
        outcome = 'VIOLATION (bounded stand-in: function degraded, concrete oracle sweep)'
    elif tgt.get('exit') == 1 and fo and all(x.startswith('kani.') for x in fo):
        outcome = 'VIOLATION (Kani harness)' 
    und = sorted(k for k, x in v.items() if x.get('exit') == 2)
    first = ''
    rd = m.get('agent_readme', '')
    mm = re.search(r'^#+\s*The change[^\n]*\n(.*?)(?=^#+\s|\Z)', rd, re.S | re.M)
    if mm:
        first = ' '.join(mm.group(1).split())[:260]
    rows.append((sid, m['breaks_property'], first, outcome, ', '.join(m.get('caught_by', [])) or '-', ', '.join(und) or '-', WHY.get(sid, '')))
out = ['# Seeded changes', '',
       'Each directory holds one change to geo-ant/varpro written by a fresh sub-agent that saw only the text of one property and its own',
       'scratch worktree (`patch.diff`, the demonstration `seed_demo.rs`, `meta.json`). Every change was confirmed in a fresh worktree',
       '(`tools/confirm_seed.sh`: compiles with and without `--features parallel`, the 75 tests pass, the demonstration fails with the',
       'change and passes without it) and then every check was run against the changed tree (`tools/seedtest.sh`).', '',
       '| id | property | the change (from the author\'s README) | target check | alarms (exit 1) | undecided (exit 2) | note |',
       '|---|---|---|---|---|---|---|']
for r in rows:
    out.append('| %s | %s | %s | %s | %s | %s | %s |' % tuple(x.replace('|', '\\|') for x in r))
caught = sum(1 for r in rows if r[3].startswith('VIOLATION') and 'bounded stand-in' not in r[3])
bounded = sum(1 for r in rows if 'bounded stand-in' in r[3])
und = sum(1 for r in rows if r[3].startswith('undecided'))
miss = sum(1 for r in rows if r[3].startswith('passes'))
out += ['', '%d changes: %d reported because an obligation of the target property fails (proof or complete/bounded Kani harness), %d deductively undecided and reported by the bounded stand-in (concrete oracle sweep), %d undecided (exit 2, never an alarm), %d missed.' % (len(rows), caught, bounded, und, miss), '']
open(os.path.join(V, 'seeded', 'README.md'), 'w').write('\n'.join(out))
print('\n'.join(out[-3:]))
