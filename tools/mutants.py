#!/usr/bin/env python3
"""acceptance protocol (DESIGN.md section 12): apply each edit to a scratch copy of /repo, run the checks
(one verification run, `./check --all --repo <scratch>`), and compare with the expected verdicts.
usage: mutants.py [--build] [name ...]
"""
import os, re, shutil, subprocess, sys, tempfile, json

VERIF = os.path.dirname(os.path.dirname(os.path.abspath(__file__)))
LM = 'src/solvers/levmar/mod.rs'
LB = 'src/solvers/levmar/builder.rs'
ST = 'src/statistics/mod.rs'
UT = 'src/util/mod.rs'
UW = 'src/util/weights.rs'
MM = 'src/model/mod.rs'
MB = 'src/model/model_basis_function.rs'
BM = 'src/model/builder/mod.rs'
FB = 'src/model/builder/modelfunction_builder/mod.rs'
MD = 'src/model/detail.rs'

# (name, file, old, new, count or None(all occurrences), expected-to-alarm)
M = [
 ('sp_unweighted_phi', LM, '.map(|Phi| &self.weights * Phi)', '.map(|Phi| Phi)', 1, ['C01', 'C02', 'C06']),
 ('sp_unweighted_phi_par', LM, '.map(|Phi| &self.weights * Phi)', '.map(|Phi| Phi)', 2, ['C11']),
 ('sp_ignore_eps', LM, 'svd.solve(&self.Y_w, svd_epsilon).ok()', 'svd.solve(&self.Y_w, Float::epsilon()).ok()', 1, ['C01']),
 ('sp_resid_plus', LM, '&self.Y_w - &Phi_w * coeff', '&self.Y_w + &Phi_w * coeff', 1, ['C02']),
 ('sp_no_early_return', LM, 'self.cached = None;\n            return;', 'self.cached = None;', 1, ['C09']),
 ('sp_no_finite_guard', LM, '            .filter(is_all_finite);', '            ;', 1, ['C08']),
 ('jac_dk_unweighted', LM, 'let Dk = &self.weights * self.model.eval_partial_deriv(k)?;', 'let Dk = self.model.eval_partial_deriv(k)?;', 1, ['C03', 'C06']),
 ('jac_plus', LM, 'U * (&U_t * (&Dk_C)) - Dk_C', 'U * (&U_t * (&Dk_C)) + Dk_C', 1, ['C03']),
 ('jac_no_projection', LM, 'let minus_ak = U * (&U_t * (&Dk_C)) - Dk_C;', 'let minus_ak = -Dk_C;', 1, ['C03']),
 ('jac_ignore_error', LM, '            result.ok()?;\n', '            let _ = result;\n', 1, ['C03', 'C09', 'C10']),
 ('jac_extra_column', LM, 'Dyn(self.model.parameter_count()),', 'Dyn(self.model.parameter_count() + 1),', 1, ['C10', 'C03']),
 ('tovec_rowmajor', UT, 'mat.reshape_generic(new_rows, U1)', 'mat.transpose().reshape_generic(new_rows, U1)', 1, ['C02', 'C03', 'C07']),
 ('build_double_weight', LB, 'let Y_w = &weights * Y;', 'let Y_w = &weights * (&weights * Y);', 1, ['C02', 'C06', 'C18']),
 ('build_unweighted_data', LB, 'let Y_w = &weights * Y;', 'let Y_w = Y;', 1, ['C02', 'C06', 'C18']),
 ('build_drop_weight_check', LB, 'if !weights.is_size_correct_for_data_length(Y.nrows()) {', 'if false {', 1, ['C18', 'C08']),
 ('build_eps_no_abs', LB, 'epsilon: Some(<_ as Float>::abs(eps)),', 'epsilon: Some(eps),', 1, ['C18']),
 ('build_obs_rowvec', LB, 'Y: Some(observed.reshape_generic(Dyn(nrows), Dyn(1))),', 'Y: Some(observed.reshape_generic(Dyn(1), Dyn(nrows))),', 1, ['C18']),
 ('fit_always_ok', LM, '            Err(result)\n', '            Ok(result)\n', 1, ['C04']),
 ('into_seq_drop_cache', LM, '''        LevMarProblem {
            Y_w,
            model,
            svd_epsilon,
            weights,
            cached,
        }
    }

    /// convert from sequential''', '''        LevMarProblem {
            Y_w,
            model,
            svd_epsilon,
            weights,
            cached: { let _ = cached; None },
        }
    }

    /// convert from sequential''', 1, ['C11', 'C04']),
 ('stats_sub_before_guard', ST, '''        if output_len <= total_parameter_count {
            return Err(Error::Underdetermined);
        }
        let degrees_of_freedom = output_len - total_parameter_count;''', '''        let degrees_of_freedom = output_len - total_parameter_count;
        if output_len <= total_parameter_count {
            return Err(Error::Underdetermined);
        }''', 1, ['C12']),
 ('is_all_finite_skip_first', LM, 'matrix.iter().all(|elem| elem.is_finite())', 'matrix.iter().skip(1).all(|elem| elem.is_finite())', 1, ['C08']),   # outside rule X15 -> degraded; reported by the bounded Kani harness in the quick tier
 ('is_all_finite_any', LM, 'matrix.iter().all(|elem| elem.is_finite())', 'matrix.iter().any(|elem| elem.is_finite())', 1, ['C08']),   # verified from its real text since rule X15 covers matrices: levmar.is_all_finite.e1 fails
 ('stats_guard_lt', ST, 'if output_len <= total_parameter_count {', 'if output_len < total_parameter_count {', 1, ['C12']),
 ('stats_dof_wrong', ST, 'let degrees_of_freedom = output_len - total_parameter_count;', 'let degrees_of_freedom = output_len - model.base_function_count();', 1, ['C12']),
 ('stats_h_unweighted', ST, 'let H = weights * J.clone();', 'let H = J.clone();', 1, ['C13']),
 ('stats_cov_sigma_once', ST, 'let covariance_matrix = HTH_inv * sigma * sigma;', 'let covariance_matrix = HTH_inv * sigma;', 1, ['C13']),
 ('stats_sigma_from_h', ST, '.zip(J.row_iter())', '.zip((weights * J.clone()).row_iter())', 1, ['C14']),   # rows of the WEIGHTED Jacobian (H itself has been moved by then)
 ('cbr_one_sided', ST, '(probability.into_f64() + 1.) / 2.,', 'probability.into_f64(),', 1, ['C14']),
 ('cbr_dof_plus1', ST, 'f64::from_usize(self.degrees_of_freedom)', 'f64::from_usize(self.degrees_of_freedom + 1)', 1, ['C14']),
 ('nlvar_wrong_start', ST, '''            &diagonal,
            Dyn(self.linear_coefficient_count),
            Dyn(total_parameter_count),''', '''            &diagonal,
            Dyn(self.nonlinear_parameter_count),
            Dyn(total_parameter_count),''', 1, ['C13']),
 ('corr_no_sqrt', ST, 'let sqrt_c_ii_c_jj = Float::sqrt(c_ii * c_jj);', 'let sqrt_c_ii_c_jj = c_ii * c_jj;', 1, ['C13']),
 ('mfj_nonlinear_first', ST, '''    Ok(concat_colwise(
        model.eval()?,
        jacobian_matrix_for_nonlinear_params,
    ))''', '''    Ok(concat_colwise(
        jacobian_matrix_for_nonlinear_params,
        model.eval()?,
    ))''', 1, ['C13', 'C14']),
 ('fws_resid_unweighted', ST, 'let weighted_residuals = weighted_data - weights * model.eval()? * linear_coefficients;', 'let weighted_residuals = weighted_data - model.eval()? * linear_coefficients;', 1, ['C12']),
 ('diag_mul_skip_last', UT, 'rhs.column_iter_mut()\n            .for_each(|mut col| col.component_mul_assign(&self.diagonal));', 'rhs.column_iter_mut().skip(1)\n            .for_each(|mut col| col.component_mul_assign(&self.diagonal));', 1, ['C06']),   # unknown adapter: DiagMatrix::mul is degraded; reported by the bounded stand-in (algebra_sweep)
 # harmless edits: nothing may alarm (exit 2 allowed where noted)
 ('harmless_comment', LM, '        // calculate the svd\n', '        // calculate the singular value decomposition\n', 2, []),
 ('harmless_reorder_let', LM, '''        // calculate the svd
        let svd_epsilon = self.svd_epsilon;
        let current_svd = Phi_w.as_ref().map(|Phi_w| Phi_w.clone().svd(true, true));''', '''        // calculate the svd
        let current_svd = Phi_w.as_ref().map(|Phi_w| Phi_w.clone().svd(true, true));
        let svd_epsilon = self.svd_epsilon;''', 1, []),
 ('harmless_debug_assert', LB, '        let params = model.params();\n', '        let params = model.params();\n        debug_assert!(Y_w.nrows() == x_len);\n', 1, []),
 # model builder (C15, C16 iii)
 ('mb_pd_normal_ok', BM, "Self::from(Err(ModelBuildError::IllegalCallToPartialDeriv))", "Self::from(_model)", 1, ['C15']),
 ('mb_init_no_len_check', BM, "if expected != initial_parameters.len() {", "if expected != initial_parameters.len() && false {", 1, ['C15']),
 ('mb_tryinto_skip_unused', BM, ".any(|function| function.derivatives.contains_key(&param_index))", ".any(|function| function.derivatives.contains_key(&param_index) || true)", 1, ['C15']),
 ('fb_dup_deriv_ok', FB, ".insert(deriv_index_in_model, deriv)\n                            .is_some()", ".insert(deriv_index_in_model, deriv)\n                            .is_none()", 1, ['C15']),
 ('fb_missing_deriv_ok', FB, "if !modelfunction.derivatives.contains_key(index) {", "if !modelfunction.derivatives.contains_key(index) && false {", 1, ['C15']),
 ('cw_skip_count_check', MD, "    check_parameter_count(function_parameters, &function)?;\n", "", 1, ['C15']),
 ('cw_wrong_param', MD, "parameters_for_function.push(params[*param_idx].clone());", "parameters_for_function.push(params[index_mapping[0]].clone());", 1, ['C16']),
 ('cim_rposition', MD, ".position(|value_full| value_full == value_subset)", ".rposition(|value_full| value_full == value_subset)", 1, ['UND']),
 ('cim_always_first', MD, ".position(|value_full| value_full == value_subset)", ".position(|value_full| value_full == value_subset || true)", 1, ['C16']),
 ('mb_function_front', BM, "    model.basefunctions.push(function);\n    Ok(model)", "    model.basefunctions.insert(0, function);\n    Ok(model)", 1, ['C16']),
 ('mb_x_not_stored', BM, "model.x_vector = Some(x);", "let _ = x;", 1, ['C15']),
 ('harmless_build_swap_checks', LB, """        if x_len == 0 || Y.is_empty() {
            return Err(LevMarBuilderError::ZeroLengthVector);
        }

        if x_len != Y.nrows() {
            return Err(LevMarBuilderError::InvalidLengthOfData {
                x_length: x_len,
                y_length: Y.nrows(),
            });
        }
""", """        if x_len != Y.nrows() {
            return Err(LevMarBuilderError::InvalidLengthOfData {
                x_length: x_len,
                y_length: Y.nrows(),
            });
        }

        if x_len == 0 || Y.is_empty() {
            return Err(LevMarBuilderError::ZeroLengthVector);
        }
""", 1, []),
 ('harmless_cw_swap_count', MD, "    check_parameter_names(function_parameters)?;\n    check_parameter_count(function_parameters, &function)?;", "    check_parameter_count(function_parameters, &function)?;\n    check_parameter_names(function_parameters)?;", 1, []),
 ('harmless_mb_swap_checks', MD, "    check_parameter_names(model_parameters)?;\n    check_parameter_names(function_parameters)?;", "    check_parameter_names(function_parameters)?;\n    check_parameter_names(model_parameters)?;", 1, []),
 ('harmless_mb_rename_local', BM, "let expected = model.parameter_names.len();\n                if expected != initial_parameters.len() {\n                    Self::from(Err(ModelBuildError::IncorrectParameterCount {\n                        expected,", "let n_expected = model.parameter_names.len();\n                if n_expected != initial_parameters.len() {\n                    Self::from(Err(ModelBuildError::IncorrectParameterCount {\n                        expected: n_expected,", 1, []),
]


def run_one(spec, build):
    (name, file, old, new, count, expect) = spec
    scratch = tempfile.mkdtemp(prefix='vpmut-')
    try:
        subprocess.run('git -C /repo archive HEAD | tar -x -C %s' % scratch, shell=True, check=True)
        p = os.path.join(scratch, file)
        s = open(p).read()
        n = s.count(old)
        if n == 0:
            return (name, 'PATTERN NOT FOUND', [], [], '%-26s PATTERN NOT FOUND' % name)
        if count == 1:
            s = s.replace(old, new, 1)
        elif count == 2:   # second occurrence only
            i = s.index(old); j = s.index(old, i + 1)
            s = s[:j] + new + s[j + len(old):]
        else:
            s = s.replace(old, new)
        open(p, 'w').write(s)
        compiled = ''
        if build:
            r = subprocess.run(['cargo', 'build', '--offline', '--features', 'parallel'], cwd=scratch, capture_output=True, text=True,
                               env=dict(os.environ, CARGO_TARGET_DIR='/tmp/vpmut-target'))
            compiled = 'compiles' if r.returncode == 0 else 'DOES-NOT-COMPILE'
        r = subprocess.run([os.path.join(VERIF, 'check'), '--all', '--repo', scratch], capture_output=True, text=True,
                           env=dict(os.environ, VP_NO_REPLAY='1', VP_ALT_OUT=os.path.join(scratch, '_out')))
        verdict = {}
        for l in r.stdout.splitlines():
            m = re.match(r'(C\d+) rc=(\d)', l)
            if m:
                verdict[m.group(1)] = int(m.group(2))
        alarms = sorted(k for k, v in verdict.items() if v == 1)
        und = sorted(k for k, v in verdict.items() if v == 2)
        miss = [e for e in expect if e not in alarms and e != 'UND']
        status = 'OK' if not miss and (expect or not alarms) else ('MISSED ' + ','.join(miss) if miss else 'FALSE-ALARM')
        if expect == ['UND']:
            status = 'OK' if (und and not alarms) else 'UNEXPECTED'
        line = '%-26s %-12s alarms=%s undecided=%s expected=%s %s' % (name, status, ','.join(alarms) or '-', ','.join(und) or '-', ','.join(expect) or '-', compiled)
        return (name, status, alarms, und, line)
    finally:
        shutil.rmtree(scratch, ignore_errors=True)


def main():
    from concurrent.futures import ThreadPoolExecutor
    args = sys.argv[1:]
    build = '--build' in args
    jobs = 1
    for a in args:
        if a.startswith('-j'):
            jobs = int(a[2:] or 1)
    names = [a for a in args if not a.startswith('-')]
    todo = [m for m in M if not names or m[0] in names]
    results = []
    with ThreadPoolExecutor(max_workers=jobs) as ex:
        for res in ex.map(lambda sp: run_one(sp, build), todo):
            print(res[4]); sys.stdout.flush()
            results.append(res)
    bad = [r for r in results if not r[1].startswith('OK')]
    print('%d mutants, %d not as expected' % (len(results), len(bad)))


if __name__ == '__main__':
    main()
