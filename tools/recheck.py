#!/usr/bin/env python3
"""re-runs every check against every stored change (seeded/*/patch.diff, harmless/*/patch.diff) and rewrites the verdicts in
their meta.json; usage: recheck.py [-jN] [id ...]   (about 4 minutes per change)"""
import json, os, re, subprocess, sys, glob
V = os.path.dirname(os.path.dirname(os.path.abspath(__file__)))
from concurrent.futures import ThreadPoolExecutor
args = sys.argv[1:]
jobs = 1
if args and args[0].startswith('-j'):
    jobs = int(args[0][2:] or 1)
    args = args[1:]
only = set(args)


def one(p):
    d = os.path.dirname(p)
    sid = os.path.basename(d)
    mp = os.path.join(d, 'meta.json')
    meta = json.load(open(mp)) if os.path.exists(mp) else {'id': sid}
    r = subprocess.run([os.path.join(V, 'tools', 'seedtest.sh'), p], capture_output=True, text=True)
    verdict = {}
    for l in r.stdout.splitlines():
        m = re.match(r'(C\d+) rc=(\d) (.*)', l)
        if m:
            clauses = sorted(set(re.findall(r'replay=\S*/replay/C\d+-([A-Za-z0-9_.\-]+)\.json', m.group(3))))
            verdict[m.group(1)] = {'exit': int(m.group(2)), 'failed_obligations': clauses} if int(m.group(2)) == 1 else {'exit': int(m.group(2)), 'note': m.group(3)[:200] if int(m.group(2)) == 2 else ''}
    if not verdict:
        print(sid, 'NO VERDICTS', r.stdout[-300:], r.stderr[-300:], flush=True)
        return
    meta['checks_on_changed_tree'] = verdict
    if 'breaks_property' in meta:
        meta['caught_by_target_check'] = verdict.get(meta['breaks_property'], {}).get('exit') == 1
        meta['caught_by'] = sorted(k for k, v in verdict.items() if v.get('exit') == 1)
    else:
        meta['alarms'] = sorted(k for k, v in verdict.items() if v.get('exit') == 1)
        meta['undecided'] = sorted(k for k, v in verdict.items() if v.get('exit') == 2)
    json.dump(meta, open(mp, 'w'), indent=1)
    print(sid, 'alarms:', sorted(k for k, v in verdict.items() if v.get('exit') == 1), 'undecided:', sorted(k for k, v in verdict.items() if v.get('exit') == 2), flush=True)


todo = [p for p in sorted(glob.glob(os.path.join(V, 'seeded', '*', 'patch.diff')) + glob.glob(os.path.join(V, 'harmless', '*', 'patch.diff')))
        if not only or os.path.basename(os.path.dirname(p)) in only]
with ThreadPoolExecutor(max_workers=jobs) as ex:
    list(ex.map(one, todo))
sys.exit(0)
for p in sorted(glob.glob(os.path.join(V, 'seeded', '*', 'patch.diff')) + glob.glob(os.path.join(V, 'harmless', '*', 'patch.diff'))):
    d = os.path.dirname(p)
    sid = os.path.basename(d)
    if only and sid not in only:
        continue
    mp = os.path.join(d, 'meta.json')
    meta = json.load(open(mp)) if os.path.exists(mp) else {'id': sid}
    r = subprocess.run([os.path.join(V, 'tools', 'seedtest.sh'), p], capture_output=True, text=True)
    verdict = {}
    for l in r.stdout.splitlines():
        m = re.match(r'(C\d+) rc=(\d) (.*)', l)
        if m:
            clauses = sorted(set(re.findall(r'replay=\S*/replay/C\d+-([A-Za-z0-9_.\-]+)\.json', m.group(3))))
            verdict[m.group(1)] = {'exit': int(m.group(2)), 'failed_obligations': clauses} if int(m.group(2)) == 1 else {'exit': int(m.group(2)), 'note': m.group(3)[:200] if int(m.group(2)) == 2 else ''}
    if not verdict:
        print(sid, 'NO VERDICTS', r.stdout[-300:], r.stderr[-300:]); continue
    meta['checks_on_changed_tree'] = verdict
    if 'breaks_property' in meta:
        meta['caught_by_target_check'] = verdict.get(meta['breaks_property'], {}).get('exit') == 1
        meta['caught_by'] = sorted(k for k, v in verdict.items() if v.get('exit') == 1)
    else:
        meta['alarms'] = sorted(k for k, v in verdict.items() if v.get('exit') == 1)
        meta['undecided'] = sorted(k for k, v in verdict.items() if v.get('exit') == 2)
    json.dump(meta, open(mp, 'w'), indent=1)
    print(sid, 'alarms:', sorted(k for k, v in verdict.items() if v.get('exit') == 1), 'undecided:', sorted(k for k, v in verdict.items() if v.get('exit') == 2), flush=True)
