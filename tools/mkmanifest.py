#!/usr/bin/env python3
"""writes MANIFEST.json from props.json (claimed checks) and na.json (not applicable, with reasons)"""
import json, os
V = os.path.dirname(os.path.dirname(os.path.abspath(__file__)))
props = json.load(open(os.path.join(V, 'props.json')))
na = json.load(open(os.path.join(V, 'na.json')))
all_ids = [json.loads(l)['id'] for l in open(os.path.join(V, 'properties.jsonl'))]
hooks = json.load(open(os.path.join(V, 'hooks.json')))
checks = []
for pid in all_ids:
    if pid not in props:
        continue
    P = props[pid]
    checks.append({
        'property_id': pid,
        'quick_cmd': './check %s --tier quick' % pid,
        'thorough_cmd': './check %s --tier thorough' % pid,
        'evidence_file': '/verif/evidence/%s.json' % pid,
        'replay_cmd_template': 'cat {path}',
        'engine': 'contracts',
        'level_claimed': {'category': P.get('level', 'proof'), 'text': P['level_text'], 'design_ref': P.get('design_ref', 'DESIGN.md section 6')},
        'level_note': P['level_note'],
        'technique': P.get('technique', 'contract-based deductive verification (Verus) of function bodies extracted from /repo on every run'),
    })
m = {
    'version': 1,
    'setup_cmd': 'cd /verif/tools/vp-extract && CARGO_NET_OFFLINE=true cargo build --release --offline',
    'hooks': hooks,
    'engines': [{'name': 'contracts', 'path': '/verif/check', 'serves_properties': [c['property_id'] for c in checks],
                 'kind_free_text': 'vp-extract (syn) pulls the real function bodies, contracts/*.vrs injects requires/ensures/invariants, Verus discharges; Kani for macro-generated code and bounded leaf validation'}],
    'checks': checks,
    'not_applicable': [{'property_id': p, 'reason': na[p]} for p in all_ids if p not in props],
    'notes': 'exit 2 = undecided (lost anchor / unsupported construct / tool limit): never an alarm. For functions the verifier cannot reach on a changed tree (degraded) a bounded stand-in runs: Kani harnesses where they exist and the concrete oracle sweeps of replay/drivers/vp_replay.rs; they can only refute, are labelled bounded and are never counted as discharged. See DESIGN.md section 13.',
}
missing = [p for p in all_ids if p not in props and p not in na]
assert not missing, missing
json.dump(m, open(os.path.join(V, 'MANIFEST.json'), 'w'), indent=1)
print('checks:', [c['property_id'] for c in checks])
