//! vp-extract: pulls function bodies out of the real geo-ant/varpro sources (syn AST, spans kept),
//! applies the fixed rewrite rules X1..X12 of DESIGN.md §2 and splices them into a contract template.
//!
//! usage: vp-extract <repo-root> <template.vrs> <out.rs> <out.map.json>
//!
//! exit 0: generated; exit 2: lost anchor / unsupported construct (never an alarm).
mod rewrite;
mod printer;

use std::collections::BTreeMap;
use std::fs;

use serde_json::json;

pub struct Fail(pub String);

macro_rules! bail {
    ($($a:tt)*) => { return Err(Fail(format!($($a)*))) };
}

fn kv(line: &str) -> BTreeMap<String, String> {
    let mut m = BTreeMap::new();
    for tok in line.split_whitespace() {
        if let Some((k, v)) = tok.split_once('=') {
            m.insert(k.to_string(), v.to_string());
        } else {
            m.insert(tok.to_string(), String::new());
        }
    }
    m
}

/// textual macro pass: //@define NAME .. //@enddef, //@use NAME [a=b ...] (simple $a substitution)
fn expand_defines(src: &str) -> Result<Vec<(usize, String)>, Fail> {
    let mut defs: BTreeMap<String, Vec<String>> = BTreeMap::new();
    let mut out: Vec<(usize, String)> = vec![];
    let mut cur: Option<(String, Vec<String>)> = None;
    for (i, line) in src.lines().enumerate() {
        let t = line.trim_start();
        if let Some(rest) = t.strip_prefix("//@define ") {
            if cur.is_some() {
                bail!("template line {}: nested //@define", i + 1);
            }
            cur = Some((rest.trim().to_string(), vec![]));
            continue;
        }
        if t.starts_with("//@enddef") {
            match cur.take() {
                Some((n, b)) => {
                    defs.insert(n, b);
                }
                None => bail!("template line {}: //@enddef without //@define", i + 1),
            }
            continue;
        }
        if let Some((_, b)) = cur.as_mut() {
            b.push(line.to_string());
            continue;
        }
        if let Some(rest) = t.strip_prefix("//@use ") {
            let args = kv(rest);
            let name = rest.split_whitespace().next().unwrap_or("").to_string();
            let body = match defs.get(&name) {
                Some(b) => b.clone(),
                None => bail!("template line {}: //@use of unknown block {}", i + 1, name),
            };
            for l in body {
                let mut l2 = l.clone();
                for (k, v) in args.iter() {
                    if !v.is_empty() {
                        l2 = l2.replace(&format!("${{{}}}", k), v);
                    }
                }
                out.push((i + 1, l2));
            }
            continue;
        }
        out.push((i + 1, line.to_string()));
    }
    if cur.is_some() {
        bail!("unterminated //@define");
    }
    Ok(out)
}

#[derive(Default, Clone)]
pub struct FnSpec {
    pub attrs: BTreeMap<String, String>,
    pub closures: BTreeMap<usize, String>,
    pub loops: BTreeMap<usize, String>,
    pub proofs: Vec<(String, String)>, // (anchor, text)
}

fn run() -> Result<(), Fail> {
    let args: Vec<String> = std::env::args().collect();
    if args.len() != 5 {
        bail!("usage: vp-extract <repo-root> <template> <out.rs> <out.map.json>");
    }
    let repo = &args[1];
    let tpl_src = fs::read_to_string(&args[2]).map_err(|e| Fail(format!("read {}: {}", args[2], e)))?;
    let lines = expand_defines(&tpl_src)?;

    let mut files: BTreeMap<String, syn::File> = BTreeMap::new();
    let mut load = |rel: &str| -> Result<syn::File, Fail> {
        if let Some(f) = files.get(rel) {
            return Ok(f.clone());
        }
        let p = format!("{}/{}", repo, rel);
        let s = fs::read_to_string(&p).map_err(|e| Fail(format!("lost anchor: cannot read {}: {}", p, e)))?;
        let f = syn::parse_file(&s).map_err(|e| Fail(format!("cannot parse {}: {}", p, e)))?;
        files.insert(rel.to_string(), f.clone());
        Ok(f)
    };

    let mut pr = printer::Printer::new();
    let mut functions = vec![];
    let mut cur: Option<FnSpec> = None;
    let mut hdr_buf: Vec<(usize, String)> = vec![]; // template lines between //@fn and //@body (signature + contract)
    let mut block: Option<(String, String, String)> = None; // (kind, key, text)

    let mut idx = 0;
    while idx < lines.len() {
        let (tl, line) = (&lines[idx].0, &lines[idx].1);
        idx += 1;
        let t = line.trim_start();
        if let Some((kind, key, text)) = block.as_mut() {
            if t.starts_with("//@end") {
                let (kind, key, text) = block.take().unwrap();
                let f = match cur.as_mut() {
                    Some(f) => f,
                    None => bail!("template line {}: //@{} outside //@fn", tl, kind),
                };
                match kind.as_str() {
                    "closure" => {
                        f.closures.insert(key.parse().map_err(|_| Fail(format!("template line {}: bad closure ordinal", tl)))?, text);
                    }
                    "loop" => {
                        f.loops.insert(key.parse().map_err(|_| Fail(format!("template line {}: bad loop ordinal", tl)))?, text);
                    }
                    "proof" => f.proofs.push((key, text)),
                    _ => unreachable!(),
                }
            } else {
                let _ = (kind, key);
                text.push_str(line);
                text.push('\n');
            }
            continue;
        }
        if let Some(rest) = t.strip_prefix("//@fn ") {
            if cur.is_some() {
                bail!("template line {}: //@fn before previous //@body", tl);
            }
            cur = Some(FnSpec { attrs: kv(rest), ..Default::default() });
            hdr_buf.clear();
            hdr_buf.push((*tl, format!("// ---- extracted: {}", rest)));
            // loops see the facts established before them (immutable locals introduced by a refactoring must not break an invariant
            // that cannot know their names)
            hdr_buf.push((*tl, "#[verifier::loop_isolation(false)] #[verifier::allow_complex_invariants]".to_string()));
            continue;
        }
        if let Some(rest) = t.strip_prefix("//@closure ") {
            block = Some(("closure".into(), rest.trim().to_string(), String::new()));
            continue;
        }
        if let Some(rest) = t.strip_prefix("//@loop ") {
            block = Some(("loop".into(), rest.trim().to_string(), String::new()));
            continue;
        }
        if let Some(rest) = t.strip_prefix("//@proof ") {
            block = Some(("proof".into(), rest.trim().to_string(), String::new()));
            continue;
        }
        if let Some(rest) = t.strip_prefix("//@body") {
            let mut spec = match cur.take() {
                Some(s) => s,
                None => bail!("template line {}: //@body without //@fn", tl),
            };
            for (k, v) in kv(rest) {
                spec.attrs.insert(k, v);
            }
            let file = spec.attrs.get("file").cloned().ok_or_else(|| Fail(format!("template line {}: //@fn without file=", tl)))?;
            let ast = load(&file)?;
            // try the extraction on a scratch printer first: a function that cannot be brought through (lost anchor,
            // unsupported construct) is DEGRADED to an assumed contract instead of failing the whole unit; the
            // reporter treats every clause of a degraded function as undecided (or decided by a bounded stand-in)
            let mut trial = printer::Printer::new();
            let forced = std::env::var("VP_EXTRACT_DEGRADE").ok().map(|v| v.split(',').any(|x| Some(x) == spec.attrs.get("id").map(|s| s.as_str()))).unwrap_or(false);
            let attempt = if forced {
                Err(Fail("the verifier rejected the extracted body (unsupported construct); see the check's log".to_string()))
            } else {
                rewrite::extract(&ast, &file, &spec, &mut trial)
            };
            match attempt {
                Ok(_) => {
                    for (l, text) in hdr_buf.drain(..) {
                        pr.template_line(l, &text);
                    }
                    let info = rewrite::extract(&ast, &file, &spec, &mut pr)?;
                    functions.push(info);
                }
                Err(Fail(reason)) => {
                    if std::env::var("VP_EXTRACT_STRICT").is_ok() {
                        return Err(Fail(reason));
                    }
                    let g0 = pr.cur_line();
                    let mut first = true;
                    for (l, text) in hdr_buf.drain(..) {
                        pr.template_line(l, &text);
                        if first {
                            pr.template_line(l, "#[verifier::external_body] /* DEGRADED: body not verified, see map.json */");
                            first = false;
                        }
                    }
                    pr.template_line(*tl, "{ unimplemented!() }");
                    functions.push(json!({
                        "id": spec.attrs.get("id").cloned().unwrap_or_default(), "file": file, "repo_lines": [0, 0],
                        "gen_lines": [g0, pr.cur_line()], "fn_index": g0, "parallel_cfg": false, "rewrites": [],
                        "tags": spec.attrs.get("tags").cloned().unwrap_or_default(),
                        "safety_tags": spec.attrs.get("safety_tags").cloned().unwrap_or_default(),
                        "degraded": reason,
                    }));
                }
            }
            continue;
        }
        if let Some(rest) = t.strip_prefix("//@struct ") {
            let a = kv(rest);
            let file = a.get("file").cloned().unwrap_or_default();
            let ast = load(&file)?;
            rewrite::check_struct(&ast, &file, &a)?;
            pr.template_line(*tl, &format!("// ---- checked against {}: {}", file, rest));
            continue;
        }
        if let Some(rest) = t.strip_prefix("//@enum ") {
            let a = kv(rest);
            let file = a.get("file").cloned().unwrap_or_default();
            let ast = load(&file)?;
            rewrite::check_enum(&ast, &file, &a)?;
            pr.template_line(*tl, &format!("// ---- checked against {}: {}", file, rest));
            continue;
        }
        if let Some(rest) = t.strip_prefix("//@absent ") {
            // a function/struct that must NOT exist (guards the assumption list)
            let a = kv(rest);
            let file = a.get("file").cloned().unwrap_or_default();
            let ast = load(&file)?;
            rewrite::check_absent(&ast, &file, &a)?;
            continue;
        }
        if t.starts_with("//@") {
            bail!("template line {}: unknown directive {}", tl, t);
        }
        if cur.is_some() {
            hdr_buf.push((*tl, line.to_string()));
        } else {
            pr.template_line(*tl, line);
        }
    }
    if cur.is_some() || block.is_some() {
        bail!("template ended inside a //@fn or block");
    }
    // module-level `const`s of the source files that an extracted body mentions are copied (types through rule X1)
    {
        let mut emitted: std::collections::BTreeSet<String> = Default::default();
        let mut extra = String::new();
        for (rel, ast) in files.iter() {
            for it in &ast.items {
                if let syn::Item::Const(c) = it {
                    let name = c.ident.to_string();
                    let used = pr.out.split(|ch: char| !(ch.is_alphanumeric() || ch == '_')).any(|w| w == name);
                    let declared = pr.out.contains(&format!("const {}", name));
                    if used && !declared && !emitted.contains(&name) {
                        let ty = quote::ToTokens::to_token_stream(&c.ty).to_string();
                        let ex = quote::ToTokens::to_token_stream(&c.expr).to_string();
                        if ["usize", "u64", "u32", "i64", "i32", "bool", "u8"].contains(&ty.as_str()) {
                            extra.push_str(&format!("verus! {{ pub const {}: {} = {}; }} // copied from {}\n", name, ty, ex, rel));
                            emitted.insert(name);
                        }
                    }
                }
            }
        }
        if !extra.is_empty() {
            for l in extra.lines() {
                pr.template_line(0, l);
            }
        }
    }

    fs::write(&args[3], &pr.out).map_err(|e| Fail(format!("write {}: {}", args[3], e)))?;
    let map = json!({
        "template": args[2],
        "functions": functions,
        "lines": pr.line_map,
        "tokens": pr.tok_map,
    });
    fs::write(&args[4], serde_json::to_string(&map).unwrap()).map_err(|e| Fail(format!("write {}: {}", args[4], e)))?;
    Ok(())
}

fn main() {
    match run() {
        Ok(()) => {}
        Err(Fail(m)) => {
            eprintln!("vp-extract: UNDECIDED: {}", m);
            std::process::exit(2);
        }
    }
}
