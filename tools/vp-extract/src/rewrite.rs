//! selection of functions in the /repo AST and the fixed rewrite rules (DESIGN.md §2).
use crate::printer::Printer;
use crate::{Fail, FnSpec};
use proc_macro2::Span;
use quote::ToTokens;
use serde_json::{json, Value};
use std::collections::BTreeMap;
use syn::spanned::Spanned;
use syn::visit::{self, Visit};
use syn::visit_mut::{self, VisitMut};
use syn::{parse_quote, Block, Expr, Pat, Stmt};

macro_rules! bail {
    ($($a:tt)*) => { return Err(Fail(format!($($a)*))) };
}

fn norm(s: &str) -> String {
    s.chars().filter(|c| !c.is_whitespace()).collect()
}

fn has_parallel_cfg(attrs: &[syn::Attribute]) -> bool {
    attrs.iter().any(|a| {
        let s = norm(&a.to_token_stream().to_string());
        s.starts_with("#[cfg(") && s.contains("feature=\"parallel\"")
    })
}

fn is_test_cfg(attrs: &[syn::Attribute]) -> bool {
    attrs.iter().any(|a| {
        let s = norm(&a.to_token_stream().to_string());
        s.starts_with("#[cfg(") && s.contains("test")
    })
}

pub struct Found {
    pub sig: syn::Signature,
    pub block: Block,
    pub line_start: usize,
    pub line_end: usize,
    pub par: bool,
}

/// collect all candidate fns of a file (free fns, inherent impls, trait impls; nested inline modules are searched as well)
fn collect(items: &[syn::Item], a: &BTreeMap<String, String>, out: &mut Vec<Found>) {
    let want_name = a.get("name").cloned().unwrap_or_default();
    let want_trait = a.get("trait").cloned();
    let want_self = a.get("self").map(|s| norm(s));
    let want_par = a.get("par").cloned().unwrap_or_else(|| "any".into());
    for it in items {
        match it {
            syn::Item::Fn(f) if a.contains_key("free") => {
                if f.sig.ident == want_name && !is_test_cfg(&f.attrs) {
                    out.push(Found { sig: f.sig.clone(), block: (*f.block).clone(), line_start: f.span().start().line, line_end: f.span().end().line, par: has_parallel_cfg(&f.attrs) });
                }
            }
            syn::Item::Impl(im) if !a.contains_key("free") => {
                if is_test_cfg(&im.attrs) {
                    continue;
                }
                let tr = im.trait_.as_ref().map(|(_, p, _)| p.segments.last().map(|s| s.ident.to_string()).unwrap_or_default());
                match (&want_trait, &tr) {
                    (Some(w), Some(t)) if w == t => {}
                    (None, None) => {}
                    _ => continue,
                }
                let st = norm(&im.self_ty.to_token_stream().to_string());
                if let Some(ws) = &want_self {
                    if &st != ws {
                        continue;
                    }
                }
                // optional: generic args of the trait path (e.g. Mul<Matrix<..>>) are not compared
                let par = has_parallel_cfg(&im.attrs);
                match want_par.as_str() {
                    "yes" if !par => continue,
                    "no" if par => continue,
                    _ => {}
                }
                for ii in &im.items {
                    if let syn::ImplItem::Fn(f) = ii {
                        if f.sig.ident == want_name {
                            out.push(Found { sig: f.sig.clone(), block: f.block.clone(), line_start: f.span().start().line, line_end: f.span().end().line, par });
                        }
                    }
                }
            }
            syn::Item::Mod(m) => {
                if is_test_cfg(&m.attrs) {
                    continue;
                }
                if let Some((_, items)) = &m.content {
                    collect(items, a, out);
                }
            }
            _ => {}
        }
    }
}

fn find_struct<'a>(items: &'a [syn::Item], name: &str) -> Option<&'a syn::ItemStruct> {
    for it in items {
        if let syn::Item::Struct(s) = it {
            if s.ident == name {
                return Some(s);
            }
        }
    }
    None
}

pub fn check_struct(ast: &syn::File, file: &str, a: &BTreeMap<String, String>) -> Result<(), Fail> {
    let name = a.get("name").cloned().unwrap_or_default();
    let want: Vec<String> = a.get("fields").map(|s| s.split(',').map(|x| x.to_string()).collect()).unwrap_or_default();
    let s = find_struct(&ast.items, &name).ok_or_else(|| Fail(format!("lost anchor: struct {} not found in {}", name, file)))?;
    let got: Vec<String> = s.fields.iter().map(|f| f.ident.as_ref().map(|i| i.to_string()).unwrap_or_default()).collect();
    if got != want {
        bail!("lost anchor: struct {} in {} has fields {:?}, contracts expect {:?}", name, file, got, want);
    }
    Ok(())
}

pub fn check_enum(ast: &syn::File, file: &str, a: &BTreeMap<String, String>) -> Result<(), Fail> {
    let name = a.get("name").cloned().unwrap_or_default();
    let want: Vec<String> = a.get("variants").map(|s| s.split(',').map(|x| x.to_string()).collect()).unwrap_or_default();
    for it in &ast.items {
        if let syn::Item::Enum(e) = it {
            if e.ident == name {
                let got: Vec<String> = e.variants.iter().map(|v| v.ident.to_string()).collect();
                if got != want {
                    bail!("lost anchor: enum {} in {} has variants {:?}, contracts expect {:?}", name, file, got, want);
                }
                return Ok(());
            }
        }
    }
    bail!("lost anchor: enum {} not found in {}", name, file)
}

pub fn check_absent(ast: &syn::File, file: &str, a: &BTreeMap<String, String>) -> Result<(), Fail> {
    let mut v = vec![];
    collect(&ast.items, a, &mut v);
    if !v.is_empty() {
        bail!("unexpected item {:?} present in {}", a.get("name"), file);
    }
    Ok(())
}

// ------------------------------------------------------------------------------------------
// helpers for method chains

struct Link {
    name: String,
    args: Vec<Expr>,
}

/// a.b().c(x) -> (a, [b(), c(x)])
fn unchain(e: &Expr) -> (Expr, Vec<Link>) {
    let mut links = vec![];
    let mut cur = e.clone();
    loop {
        match cur {
            Expr::MethodCall(mc) => {
                links.push(Link { name: mc.method.to_string(), args: mc.args.iter().cloned().collect() });
                cur = *mc.receiver;
            }
            Expr::Paren(p) => cur = *p.expr,
            other => {
                links.reverse();
                return (other, links);
            }
        }
    }
}

fn names(links: &[Link]) -> Vec<&str> {
    links.iter().map(|l| l.name.as_str()).collect()
}

fn tuple2(p: &Pat) -> Option<(Pat, Pat)> {
    if let Pat::Tuple(t) = p {
        if t.elems.len() == 2 {
            return Some((t.elems[0].clone(), t.elems[1].clone()));
        }
    }
    None
}

fn pat_ident(p: &Pat) -> Option<syn::Ident> {
    match p {
        Pat::Ident(i) => Some(i.ident.clone()),
        Pat::Type(t) => pat_ident(&t.pat),
        _ => None,
    }
}

fn block_of(e: &Expr) -> Vec<Stmt> {
    match e {
        Expr::Block(b) => b.block.stmts.clone(),
        other => vec![Stmt::Expr(other.clone(), None)],
    }
}

pub struct Rw {
    pub log: Vec<Value>,
    pub try_match: bool,
    pub err: Option<String>,
}

impl Rw {
    fn note(&mut self, rule: &str, line: usize) {
        self.log.push(json!({"rule": rule, "line": line}));
    }
}

/// replaces `?` by "record the error in `res` and leave the loop" (collect::<Result<..>> semantics) -- X4(a)
/// what happens to an `Err` produced by the per-column closure
#[derive(Clone, Copy, PartialEq)]
enum ErrMode {
    Record,      // collect::<Result<..>>(): the first error is the result, iteration stops
    DropAndStop, // .take_while(Result::is_ok) before collect: iteration stops, the error is discarded
    Skip,        // .filter(Result::is_ok) before collect: the item is skipped, iteration goes on
}
struct TryToBreak {
    res: syn::Ident,
    mode: ErrMode,
    k: syn::Ident,
}
impl VisitMut for TryToBreak {
    fn visit_expr_mut(&mut self, e: &mut Expr) {
        if let Expr::Closure(_) = e {
            return; // `?` inside a nested closure belongs to that closure
        }
        visit_mut::visit_expr_mut(self, e);
        if let Expr::Try(t) = e {
            let inner = &t.expr;
            let res = &self.res;
            let k = &self.k;
            *e = match self.mode {
                ErrMode::Record => parse_quote!(match #inner { Ok(__v) => __v, Err(__e) => { #res = Err(__e); break; } }),
                ErrMode::DropAndStop => parse_quote!(match #inner { Ok(__v) => __v, Err(__e) => { break; } }),
                ErrMode::Skip => parse_quote!(match #inner { Ok(__v) => __v, Err(__e) => { #k = __vp_succ(#k); continue; } }),
            };
        }
    }
}

/// `*name = e` -> `V.set_elem(i, e)`, `*name` -> `V.get_elem(i)` -- X4(d..f)
struct DerefElem {
    name: syn::Ident,
    vec: Expr,
    idx: syn::Ident,
}
impl VisitMut for DerefElem {
    fn visit_expr_mut(&mut self, e: &mut Expr) {
        if let Expr::Assign(a) = e {
            if let Expr::Unary(u) = &*a.left {
                if matches!(u.op, syn::UnOp::Deref(_)) {
                    if let Expr::Path(p) = &*u.expr {
                        if p.path.is_ident(&self.name) {
                            let mut rhs = (*a.right).clone();
                            self.visit_expr_mut(&mut rhs);
                            let (v, i) = (&self.vec, &self.idx);
                            *e = parse_quote!(#v.set_elem(#i, #rhs));
                            return;
                        }
                    }
                }
            }
        }
        visit_mut::visit_expr_mut(self, e);
        if let Expr::Unary(u) = e {
            if matches!(u.op, syn::UnOp::Deref(_)) {
                if let Expr::Path(p) = &*u.expr {
                    if p.path.is_ident(&self.name) {
                        let (v, i) = (&self.vec, &self.idx);
                        *e = parse_quote!(#v.get_elem(#i));
                    }
                }
            }
        }
    }
}

fn strip_mut(p: &Pat) -> Pat {
    // keep `mut c` as written: the column handle is mutated
    p.clone()
}

impl Rw {
    /// X4: iteration skeletons, statement level. Returns replacement statements.
    fn x4_stmt(&mut self, st: &Stmt) -> Option<Vec<Stmt>> {
        let line = st.span().start().line;
        match st {
            // (a) let result: T = M.[par_]column_iter_mut().enumerate().map(|(k, mut c)| {B; Ok(())}).collect::<Result<_,_>>();
            Stmt::Local(l) => {
                let init = l.init.as_ref()?;
                let (base, links) = unchain(&init.expr);
                let n = names(&links);
                // generalised: column_iter_mut().enumerate() [.skip(a)] [.take(b)] .map(closure) [.take_while(Result::is_ok) | .filter(Result::is_ok)] .collect()
                let is_src = n.len() >= 4 && (n[0] == "column_iter_mut" || n[0] == "par_column_iter_mut") && n[1] == "enumerate" && *n.last().unwrap() == "collect";
                if is_src {
                    let mut i = 2;
                    let mut skip: Option<Expr> = None;
                    let mut take: Option<Expr> = None;
                    while i < n.len() && (n[i] == "skip" || n[i] == "take") {
                        if n[i] == "skip" && skip.is_none() && take.is_none() {
                            skip = links[i].args.first().cloned();
                        } else if n[i] == "take" && take.is_none() {
                            take = links[i].args.first().cloned();
                        } else {
                            return None;
                        }
                        i += 1;
                    }
                    if i >= n.len() || n[i] != "map" {
                        return None;
                    }
                    let map_at = i;
                    i += 1;
                    let mut mode = ErrMode::Record;
                    if i < n.len() && (n[i] == "take_while" || n[i] == "filter") {
                        let a = norm(&links[i].args.first()?.to_token_stream().to_string());
                        let is_ok = a == "Result::is_ok" || a.ends_with(".is_ok()");
                        if !is_ok {
                            return None;
                        }
                        mode = if n[i] == "take_while" { ErrMode::DropAndStop } else { ErrMode::Skip };
                        i += 1;
                    }
                    if i != n.len() - 1 {
                        return None;
                    }
                    let res = pat_ident(&l.pat)?;
                    let clo = match links[map_at].args.first()? {
                        Expr::Closure(c) => c.clone(),
                        _ => return None,
                    };
                    if clo.inputs.len() != 1 {
                        return None;
                    }
                    let (kp, cp) = tuple2(&clo.inputs[0])?;
                    let k = pat_ident(&kp)?;
                    let mut body = block_of(&clo.body);
                    // last statement must be Ok(())
                    match body.pop() {
                        Some(Stmt::Expr(e, None)) if norm(&e.to_token_stream().to_string()) == "Ok(())" => {}
                        _ => {
                            self.err = Some(format!("X4(a) line {}: closure does not end in Ok(())", line));
                            return None;
                        }
                    }
                    let mut ttb = TryToBreak { res: res.clone(), mode, k: k.clone() };
                    for s in body.iter_mut() {
                        ttb.visit_stmt_mut(s);
                    }
                    let cpat = strip_mut(&cp);
                    let cid = pat_ident(&cp)?;
                    let mut out: Vec<Stmt> = vec![];
                    // keep the declared error type: `Result<Vec<()>, E>` becomes `Result<(), E>`
                    let mut err_ty: Option<syn::Type> = None;
                    if let Pat::Type(pt) = &l.pat {
                        if let syn::Type::Path(tp) = &*pt.ty {
                            if let Some(seg) = tp.path.segments.last() {
                                if let syn::PathArguments::AngleBracketed(ab) = &seg.arguments {
                                    if ab.args.len() == 2 {
                                        if let syn::GenericArgument::Type(t) = &ab.args[1] {
                                            err_ty = Some(t.clone());
                                        }
                                    }
                                }
                            }
                        }
                    }
                    match err_ty {
                        Some(t) => out.push(parse_quote!(let mut #res: Result<(), #t> = __vp_ok_unit();)),
                        None => out.push(parse_quote!(let mut #res = __vp_ok_unit();)),
                    }
                    let start: Expr = match &skip { Some(a) => parse_quote!(#a), None => parse_quote!(0) };
                    match &take {
                        Some(b) => out.push(parse_quote!(let __n = __vp_take_bound(#base.ncols(), #start, #b);)),
                        None => out.push(parse_quote!(let __n = #base.ncols();)),
                    }
                    out.push(parse_quote!(let mut #k: usize = #start;));
                    let w: Stmt = parse_quote!(while #k < __n {
                        let #cpat = #base.__take_column(#k);
                        #(#body)*
                        #base.__put_column(#k, #cid);
                        #k = __vp_succ(#k);
                    });
                    out.push(w);
                    if mode != ErrMode::Record || skip.is_some() || take.is_some() {
                        self.note("X4a-adapters", line);
                    }
                    self.note(if n[0] == "par_column_iter_mut" { "X4a-par" } else { "X4a" }, line);
                    return Some(out);
                }
                None
            }
            Stmt::Expr(Expr::ForLoop(f), _) => {
                let (base, links) = unchain(&f.expr);
                let n = names(&links);
                // (g') for mut col in M.column_iter_mut() { B }: the `for` spelling of (g)
                if n == ["column_iter_mut"] {
                    if let Some(cid) = pat_ident(&f.pat) {
                        let cp = f.pat.clone();
                        let body = f.body.stmts.clone();
                        let mut out: Vec<Stmt> = vec![];
                        out.push(parse_quote!(let __n = #base.ncols();));
                        out.push(parse_quote!(let mut __i: usize = 0;));
                        out.push(parse_quote!(while __i < __n {
                            let #cp = #base.__take_column(__i);
                            #(#body)*
                            #base.__put_column(__i, #cid);
                            __i = __vp_succ(__i);
                        }));
                        self.note("X4g", line);
                        return Some(out);
                    }
                }
                let (ap, bp) = tuple2(&f.pat)?;
                let body = f.body.stmts.clone();
                // (b) for (idx, mut col) in M.column_iter_mut().enumerate() { B }
                if n == ["column_iter_mut", "enumerate"] {
                    let k = pat_ident(&ap)?;
                    let cid = pat_ident(&bp)?;
                    let mut out: Vec<Stmt> = vec![];
                    out.push(parse_quote!(let __n = #base.ncols();));
                    out.push(parse_quote!(let mut #k: usize = 0;));
                    out.push(parse_quote!(while #k < __n {
                        let #bp = #base.__take_column(#k);
                        #(#body)*
                        #base.__put_column(#k, #cid);
                        #k = __vp_succ(#k);
                    }));
                    self.note("X4b", line);
                    return Some(out);
                }
                // (c) for (f, mut c) in XS.iter().zip(M.column_iter_mut()) { B }
                if n == ["iter", "zip"] && names(&unchain(links[1].args.first()?).1) == ["column_iter_mut"] {
                    let (m, _ml) = unchain(links[1].args.first()?);
                    let cid = pat_ident(&bp)?;
                    let mut out: Vec<Stmt> = vec![];
                    out.push(parse_quote!(let __n = __vp_min(#base.len(), #m.ncols());));
                    out.push(parse_quote!(let mut __i: usize = 0;));
                    out.push(parse_quote!(while __i < __n {
                        let #ap = &#base[__i];
                        let #bp = #m.__take_column(__i);
                        #(#body)*
                        #m.__put_column(__i, #cid);
                        __i = __vp_succ(__i);
                    }));
                    self.note("X4c", line);
                    return Some(out);
                }
                // (h) for (i, x) in V.iter().enumerate() { B }
                if n == ["iter", "enumerate"] {
                    let k = pat_ident(&ap)?;
                    let mut out: Vec<Stmt> = vec![];
                    out.push(parse_quote!(let __n = #base.len();));
                    out.push(parse_quote!(let mut #k: usize = 0;));
                    out.push(parse_quote!(while #k < __n {
                        let #bp = &#base[#k];
                        #(#body)*
                        #k = __vp_succ(#k);
                    }));
                    self.note("X4h", line);
                    return Some(out);
                }
                // (c2) for (a, b) in A.iter().zip(B.iter()) { B }
                if n == ["iter", "zip"] {
                    let (m, ml) = unchain(links[1].args.first()?);
                    if names(&ml) == ["iter"] {
                        let mut out: Vec<Stmt> = vec![];
                        out.push(parse_quote!(let __n = __vp_min(#base.len(), #m.len());));
                        out.push(parse_quote!(let mut __i: usize = 0;));
                        out.push(parse_quote!(while __i < __n {
                            let #ap = &#base[__i];
                            let #bp = &#m[__i];
                            #(#body)*
                            __i = __vp_succ(__i);
                        }));
                        self.note("X4c2", line);
                        return Some(out);
                    }
                }
                // (d'),(e') for (a, b) in V.iter_mut().zip(J.row_iter() | W.iter()) { B }: the `for` spelling of (d),(e)
                if n == ["iter_mut", "zip"] {
                    let (other, ol) = unchain(links[1].args.first()?);
                    let on = names(&ol);
                    let a = pat_ident(&ap)?;
                    let mut body = body;
                    let idx = syn::Ident::new("__i", Span::call_site());
                    let mut de = DerefElem { name: a, vec: base.clone(), idx: idx.clone() };
                    for s in body.iter_mut() {
                        de.visit_stmt_mut(s);
                    }
                    let (bound, bind, rule): (Expr, Stmt, &str) = if on == ["row_iter"] {
                        (parse_quote!(__vp_min(#base.len(), #other.nrows())), parse_quote!(let #bp = #other.row(__i);), "X4d")
                    } else if on == ["iter"] {
                        (parse_quote!(__vp_min(#base.len(), #other.len())), parse_quote!(let #bp = #other.get_elem(__i);), "X4e")
                    } else {
                        return None;
                    };
                    let mut out: Vec<Stmt> = vec![];
                    out.push(parse_quote!(let __n = #bound;));
                    out.push(parse_quote!(let mut __i: usize = 0;));
                    out.push(parse_quote!(while __i < __n {
                        #bind
                        #(#body)*
                        __i = __vp_succ(__i);
                    }));
                    self.note(rule, line);
                    return Some(out);
                }
                // (f) for (idx, val) in V.iter_mut().enumerate() { B }
                if n == ["iter_mut", "enumerate"] {
                    let k = pat_ident(&ap)?;
                    let val = pat_ident(&bp)?;
                    let mut body = body;
                    let mut de = DerefElem { name: val, vec: base.clone(), idx: k.clone() };
                    for s in body.iter_mut() {
                        de.visit_stmt_mut(s);
                    }
                    let mut out: Vec<Stmt> = vec![];
                    out.push(parse_quote!(let __n = #base.len();));
                    out.push(parse_quote!(let mut #k: usize = 0;));
                    out.push(parse_quote!(while #k < __n {
                        #(#body)*
                        #k = __vp_succ(#k);
                    }));
                    self.note("X4f", line);
                    return Some(out);
                }
                None
            }
            // (d),(e)  V.iter_mut().zip(J.row_iter() | W.iter()).for_each(|(a, b)| B);
            Stmt::Expr(e, _) => {
                let (base, links) = unchain(e);
                let n = names(&links);
                if n == ["column_iter_mut", "for_each"] {
                    let clo = match links[1].args.first()? {
                        Expr::Closure(c) => c.clone(),
                        _ => return None,
                    };
                    if clo.inputs.len() != 1 {
                        return None;
                    }
                    let cp = clo.inputs[0].clone();
                    let cid = pat_ident(&cp)?;
                    let mut body = block_of(&clo.body);
                    // a tail expression becomes a statement
                    if let Some(Stmt::Expr(e, None)) = body.last().cloned() {
                        body.pop();
                        body.push(Stmt::Expr(e, Some(Default::default())));
                    }
                    let mut out: Vec<Stmt> = vec![];
                    out.push(parse_quote!(let __n = #base.ncols();));
                    out.push(parse_quote!(let mut __i: usize = 0;));
                    out.push(parse_quote!(while __i < __n {
                        let #cp = #base.__take_column(__i);
                        #(#body)*
                        #base.__put_column(__i, #cid);
                        __i = __vp_succ(__i);
                    }));
                    self.note("X4g", line);
                    return Some(out);
                }
                if n == ["iter_mut", "zip", "for_each"] {
                    let (other, ol) = unchain(links[1].args.first()?);
                    let on = names(&ol);
                    let clo = match links[2].args.first()? {
                        Expr::Closure(c) => c.clone(),
                        _ => return None,
                    };
                    let (ap, bp) = tuple2(clo.inputs.first()?)?;
                    let a = pat_ident(&ap)?;
                    let mut body = block_of(&clo.body);
                    let idx = syn::Ident::new("__i", Span::call_site());
                    let mut de = DerefElem { name: a, vec: base.clone(), idx: idx.clone() };
                    for s in body.iter_mut() {
                        de.visit_stmt_mut(s);
                    }
                    let (bound, bind, rule): (Expr, Stmt, &str) = if on == ["row_iter"] {
                        (parse_quote!(__vp_min(#base.len(), #other.nrows())), parse_quote!(let #bp = #other.row(__i);), "X4d")
                    } else if on == ["iter"] {
                        (parse_quote!(__vp_min(#base.len(), #other.len())), parse_quote!(let #bp = #other.get_elem(__i);), "X4e")
                    } else {
                        return None;
                    };
                    let mut out: Vec<Stmt> = vec![];
                    out.push(parse_quote!(let __n = #bound;));
                    out.push(parse_quote!(let mut __i: usize = 0;));
                    out.push(parse_quote!(while __i < __n {
                        #bind
                        #(#body)*
                        __i = __vp_succ(__i);
                    }));
                    self.note(rule, line);
                    return Some(out);
                }
                None
            }
            _ => None,
        }
    }
}

fn parse_macro_args(m: &syn::Macro) -> Option<Vec<Expr>> {
    let p = syn::punctuated::Punctuated::<Expr, syn::Token![,]>::parse_terminated;
    use syn::parse::Parser;
    p.parse2(m.tokens.clone()).ok().map(|x| x.into_iter().collect())
}

fn macro_name(m: &syn::Macro) -> String {
    m.path.segments.last().map(|s| s.ident.to_string()).unwrap_or_default()
}

impl Rw {
    /// X6: panicking macros -> obligations
    fn x6(&mut self, m: &syn::Macro, line: usize) -> Option<Expr> {
        let name = macro_name(m);
        match name.as_str() {
            "assert" | "debug_assert" => {
                let a = parse_macro_args(m)?;
                let c = a.first()?;
                self.note("X6", line);
                Some(parse_quote!(must_hold(#c)))
            }
            "assert_eq" | "debug_assert_eq" => {
                let a = parse_macro_args(m)?;
                let (l, r) = (a.get(0)?, a.get(1)?);
                self.note("X6", line);
                Some(parse_quote!(must_hold(#l == #r)))
            }
            "assert_ne" | "debug_assert_ne" => {
                let a = parse_macro_args(m)?;
                let (l, r) = (a.get(0)?, a.get(1)?);
                self.note("X6", line);
                Some(parse_quote!(must_hold(#l != #r)))
            }
            "panic" | "unreachable" | "unimplemented" | "todo" => {
                self.note("X6", line);
                Some(parse_quote!(unreachable_here()))
            }
            // X6b: `matches!(e, pat [if guard])` is the `match` core defines it to be
            "matches" => {
                use syn::parse::Parser;
                let parser = |input: syn::parse::ParseStream| -> syn::Result<(Expr, Pat, Option<Expr>)> {
                    let e: Expr = input.parse()?;
                    input.parse::<syn::Token![,]>()?;
                    let pat = Pat::parse_multi_with_leading_vert(input)?;
                    let guard = if input.peek(syn::Token![if]) {
                        input.parse::<syn::Token![if]>()?;
                        Some(input.parse::<Expr>()?)
                    } else {
                        None
                    };
                    let _ = input.parse::<Option<syn::Token![,]>>()?;
                    Ok((e, pat, guard))
                };
                let (e, pat, guard) = parser.parse2(m.tokens.clone()).ok()?;
                self.note("X6b", line);
                Some(match guard {
                    Some(g) => parse_quote!(match #e { #pat if #g => true, _ => false }),
                    None => parse_quote!(match #e { #pat => true, _ => false }),
                })
            }
            _ => None,
        }
    }
}

fn path_str(p: &syn::Path) -> String {
    norm(&p.to_token_stream().to_string())
}

/// X1 on paths that occur inside bodies (fixed table)
fn x1_path(p: &mut syn::Path, qself: &mut Option<syn::QSelf>) -> bool {
    // <End as DimSub<Start>>::Output  /  <C1 as DimAdd<C2>>::Output  -> usize
    if let Some(q) = qself {
        let s = path_str(p);
        // <Model::ScalarType as ComplexField>::RealField -> Sc (the scalar type of the prelude is real)
        let qt = norm(&q.ty.to_token_stream().to_string());
        if ["Model::ScalarType", "Self::ScalarType", "ScalarType", "Sc"].contains(&qt.as_str())
            && ["ComplexField::RealField", "nalgebra::ComplexField::RealField", "RealField::RealField"].contains(&s.as_str())
        {
            *p = parse_quote!(Sc);
            *qself = None;
            return true;
        }
        if (s.starts_with("DimSub<") || s.starts_with("DimAdd<") || s.starts_with("nalgebra::DimSub<") || s.starts_with("nalgebra::DimAdd<")) && s.contains("::Output") {
            // keep trailing segments after Output (e.g. ::from_usize)
            let mut segs: Vec<syn::PathSegment> = vec![];
            let mut seen_output = false;
            for seg in p.segments.iter() {
                if seen_output {
                    segs.push(seg.clone());
                }
                if seg.ident == "Output" {
                    seen_output = true;
                }
            }
            let mut np: syn::Path = parse_quote!(usize);
            for s in segs {
                np.segments.push(s);
            }
            *p = np;
            *qself = None;
            return true;
        }
        return false;
    }
    let first = p.segments.first().map(|s| s.ident.to_string()).unwrap_or_default();
    let n = p.segments.len();
    let rename_first = |p: &mut syn::Path, to: &str| {
        let seg = p.segments.first_mut().unwrap();
        seg.ident = syn::Ident::new(to, seg.ident.span());
        seg.arguments = syn::PathArguments::None;
    };
    match first.as_str() {
        "OVector" | "DVector" => {
            let had_args = !matches!(p.segments.first().unwrap().arguments, syn::PathArguments::None);
            if first != "DVector" || had_args {
                rename_first(p, "DVector");
                return true;
            }
        }
        "OMatrix" | "DMatrix" | "UninitMatrix" => {
            let had_args = !matches!(p.segments.first().unwrap().arguments, syn::PathArguments::None);
            if first != "DMatrix" || had_args {
                rename_first(p, "DMatrix");
                return true;
            }
        }
        "Model" | "Self" if n >= 2 && p.segments[1].ident == "ScalarType" => {
            // Model::ScalarType[::x] -> Sc[::x]
            let rest: Vec<syn::PathSegment> = p.segments.iter().skip(2).cloned().collect();
            let mut np: syn::Path = parse_quote!(Sc);
            for s in rest {
                np.segments.push(s);
            }
            *p = np;
            return true;
        }
        "ScalarType" => {
            rename_first(p, "Sc");
            return true;
        }
        // X1: `nalgebra::x`, `num_traits::x`, `levenberg_marquardt::x`: the dependency's items live unqualified in the prelude
        "nalgebra" | "num_traits" | "levenberg_marquardt" if n >= 2 => {
            let rest: Vec<syn::PathSegment> = p.segments.iter().skip(1).cloned().collect();
            let mut np = syn::Path { leading_colon: None, segments: syn::punctuated::Punctuated::new() };
            for s in rest {
                np.segments.push(s);
            }
            *p = np;
            return true;
        }
        // X1: the primitive `f64` as a type (a local's annotation, a turbofish) -> the F64 of the prelude
        "f64" if n == 1 => {
            rename_first(p, "F64");
            return true;
        }
        // X1: String / str -> the abstract name type of the prelude
        "String" | "str" if n == 1 => {
            rename_first(p, "Name");
            return true;
        }
        _ => {}
    }
    false
}

#[derive(Clone, Copy, PartialEq, Debug)]
enum Kind {
    Opt,
    Res,
    Unknown,
}

/// does the closure body contain `?` or `return` (which would change meaning when the closure is inlined)?
struct HasEarlyExit(bool);
impl<'ast> syn::visit::Visit<'ast> for HasEarlyExit {
    fn visit_expr(&mut self, e: &'ast Expr) {
        match e {
            Expr::Try(_) | Expr::Return(_) => self.0 = true,
            Expr::Closure(_) => {}
            _ => syn::visit::visit_expr(self, e),
        }
    }
}

/// X16: reference patterns `&x` (x a plain binding) inside a match-arm / if-let pattern are not in the Verus dialect:
/// the pattern binds `__r_x` (the reference) and `let x = *__r_x;` is put in front of the guard and of the body
/// (what the reference pattern is defined to do for the Copy types it is legal on).
struct RefPats(Vec<(syn::Ident, syn::Ident)>);
impl VisitMut for RefPats {
    fn visit_pat_mut(&mut self, p: &mut Pat) {
        if let Pat::Reference(r) = p {
            if let Pat::Ident(pi) = &*r.pat {
                if pi.subpat.is_none() && pi.by_ref.is_none() && r.mutability.is_none() {
                    let x = pi.ident.clone();
                    let rx = syn::Ident::new(&format!("__r_{}", x), Span::call_site());
                    self.0.push((x, rx.clone()));
                    *p = parse_quote!(#rx);
                    return;
                }
            }
        }
        visit_mut::visit_pat_mut(self, p);
    }
}
fn x16_lets(b: &[(syn::Ident, syn::Ident)]) -> Vec<Stmt> {
    b.iter().map(|(x, rx)| -> Stmt { parse_quote!(let #x = *#rx;) }).collect()
}

/// the generated index loop ends in `[BASE.__put_column(K, C);] X = __vp_succ(X);`: an unlabeled `continue` of the user's body
/// becomes `{ <that epilogue> continue; }`, an unlabeled `break` becomes `{ [put] break; }` (nested loops and closures are skipped)
struct JumpFix { cont: Vec<Stmt>, brk: Vec<Stmt>, labeled: bool }
impl VisitMut for JumpFix {
    fn visit_expr_mut(&mut self, e: &mut Expr) {
        match e {
            Expr::Closure(_) => {}
            Expr::While(_) | Expr::ForLoop(_) | Expr::Loop(_) => {
                // a labeled jump out of a nested loop could leave this loop without its epilogue
                let mut f = LabeledJump(false);
                f.visit_expr(e);
                self.labeled |= f.0;
            }
            Expr::Continue(c) if c.label.is_some() => self.labeled = true,
            Expr::Break(b) if b.label.is_some() || b.expr.is_some() => self.labeled = true,
            Expr::Continue(c) if c.label.is_none() => {
                let pre = &self.cont;
                *e = parse_quote!({ #(#pre)* continue; });
            }
            Expr::Break(b) if b.label.is_none() && b.expr.is_none() => {
                let pre = &self.brk;
                if !pre.is_empty() {
                    *e = parse_quote!({ #(#pre)* break; });
                }
            }
            _ => visit_mut::visit_expr_mut(self, e),
        }
    }
}
struct LabeledJump(bool);
impl<'ast> Visit<'ast> for LabeledJump {
    fn visit_expr(&mut self, e: &'ast Expr) {
        match e {
            Expr::Closure(_) => {}
            Expr::Continue(c) if c.label.is_some() => self.0 = true,
            Expr::Break(b) if b.label.is_some() => self.0 = true,
            _ => visit::visit_expr(self, e),
        }
    }
}
/// returns false when the body has a labeled jump (not modelled: the function is reported as unsupported)
fn fix_jumps(body: &mut Block) -> bool {
    let n = body.stmts.len();
    if n == 0 {
        return true;
    }
    let is_put = |st: &Stmt| norm(&st.to_token_stream().to_string()).contains(".__put_column(");
    let is_inc = |st: &Stmt| norm(&st.to_token_stream().to_string()).contains("=__vp_succ(");
    if !is_inc(&body.stmts[n - 1]) {
        return true;
    }
    let mut epi = vec![body.stmts[n - 1].clone()];
    let mut brk = vec![];
    let mut user_end = n - 1;
    if n >= 2 && is_put(&body.stmts[n - 2]) {
        epi.insert(0, body.stmts[n - 2].clone());
        brk.push(body.stmts[n - 2].clone());
        user_end = n - 2;
    }
    let mut jf = JumpFix { cont: epi, brk, labeled: false };
    for st in body.stmts[..user_end].iter_mut() {
        jf.visit_stmt_mut(st);
    }
    !jf.labeled
}

struct Pass {
    x7_off: bool,
    iterarg: Vec<String>,
    into_fn: Option<String>,
    asref_fn: Option<String>,
    ret_kind: Kind,
    ret_ok_ty: Option<syn::Type>,
    box_count: usize,
    kinds: BTreeMap<String, Kind>,
    field_kinds: BTreeMap<String, Kind>,
    subst: Vec<(String, String)>,
    rw: Rw,
    closure_count: usize,
    loop_count: usize,
    proofs: Vec<(String, String)>,
    used_proofs: Vec<bool>,
}


impl Pass {
    /// X13: string-collection plumbing `E.into_iter().map(|s| s.as_ref().to_string()).collect()` -> `__vp_to_strings(E)`,
    ///      `E.iter().cloned().map(|n| n.into()).collect()` -> `__vp_clone_strings(E)`
    fn x13(&mut self, e: &Expr) -> Option<Expr> {
        let (base, links) = unchain(e);
        let n = names(&links);
        let body_of = |l: &Link| -> Option<String> {
            match l.args.first()? {
                Expr::Closure(c) if c.inputs.len() == 1 => {
                    let p = pat_ident(&c.inputs[0])?.to_string();
                    Some(norm(&c.body.to_token_stream().to_string()).replace(&format!("{}.", p), "$."))
                }
                _ => None,
            }
        };
        if n == ["into_iter", "map", "collect"] && body_of(&links[1]).as_deref() == Some("$.as_ref().to_string()") {
            self.rw.note("X13", e.span().start().line);
            return Some(parse_quote!(__vp_to_strings(#base)));
        }
        if n == ["iter", "cloned", "map", "collect"] && body_of(&links[2]).as_deref() == Some("$.into()") {
            self.rw.note("X13", e.span().start().line);
            return Some(parse_quote!(__vp_clone_strings(#base)));
        }
        None
    }

    /// X15: iterator pipelines `V.iter()[.enumerate()](.filter(c))*.{find|any|all|position}(c)` -> a block with an index
    /// loop whose conditions are the closure bodies (the iterator protocol is trusted, the predicates are the real text)
    fn x15(&mut self, e: &Expr) -> Option<Expr> {
        let (base, links) = unchain(e);
        let n = names(&links);
        if n.len() < 2 || (n[0] != "iter" && n[0] != "into_iter") {
            return None;
        }
        let term = *n.last().unwrap();
        if !["find", "any", "all", "position"].contains(&term) {
            return None;
        }
        let mut i = 1;
        let enumerate = n[i] == "enumerate";
        if enumerate {
            i += 1;
        }
        let mut conds: Vec<(Pat, Expr, bool)> = vec![]; // (pattern, predicate, is_terminal)
        while i < n.len() {
            let is_term = i == n.len() - 1;
            if !is_term && n[i] != "filter" {
                return None;
            }
            let clo = match links[i].args.first()? {
                Expr::Closure(c) if c.inputs.len() == 1 => c.clone(),
                _ => return None,
            };
            let mut hx = HasEarlyExit(false);
            syn::visit::Visit::visit_expr(&mut hx, &clo.body);
            if hx.0 {
                return None;
            }
            let pat = match &clo.inputs[0] {
                Pat::Type(pt) => (*pt.pat).clone(),
                other => other.clone(),
            };
            conds.push((pat, (*clo.body).clone(), is_term));
            i += 1;
        }
        let item: Expr = if enumerate { parse_quote!((__i, &#base[__i])) } else { parse_quote!(&#base[__i]) };
        // filter closures and find's closure receive a reference to the item; any/all/position receive the item
        let mut stmts: Vec<Stmt> = vec![];
        let by_ref_term = term == "find";
        for (pat, pred, is_term) in conds.iter() {
            // Verus has no reference patterns: `|&p|` applied to `&item` binds `p = item`
            let by_ref = !*is_term || by_ref_term;
            let bind: Stmt = match (pat, by_ref) {
                (Pat::Reference(r), true) => { let inner = &r.pat; parse_quote!(let #inner = __item;) }
                (Pat::Reference(r), false) => { let inner = &r.pat; parse_quote!(let #inner = *__item;) }
                (_, true) => parse_quote!(let #pat = &__item;),
                (_, false) => parse_quote!(let #pat = __item;),
            };
            if !*is_term {
                stmts.push(parse_quote!({ #bind if !(#pred) { __i = __vp_succ(__i); continue; } }));
            } else {
                let hit: Stmt = match term {
                    "find" | "position" | "any" => parse_quote!({ #bind if #pred { __hit = __i; break; } }),
                    _ => parse_quote!({ #bind if !(#pred) { __hit = __i; break; } }),
                };
                stmts.push(hit);
            }
        }
        // `__hit` is the index of the first item that decides the result (or `__n` if there is none)
        let result: Expr = match term {
            "find" => parse_quote!(if __hit < __n { let __i = __hit; Some(#item) } else { None }),
            "position" => parse_quote!(if __hit < __n { Some(__hit) } else { None }),
            "any" => parse_quote!(__hit < __n),
            _ => parse_quote!(!(__hit < __n)),
        };
        self.rw.note("X15", e.span().start().line);
        Some(parse_quote!({
            let __n = #base.len();
            let mut __hit: usize = __n;
            let mut __i: usize = 0;
            while __i < __n {
                let __item = #item;
                #(#stmts)*
                __i = __vp_succ(__i);
            }
            #result
        }))
    }
}

fn diverges(e: &Expr) -> bool {
    match e {
        Expr::Return(_) | Expr::Continue(_) | Expr::Break(_) => true,
        Expr::Macro(m) => ["panic", "unreachable", "unimplemented", "todo"].iter().any(|n| m.mac.path.is_ident(n)),
        Expr::Block(b) => matches!(b.block.stmts.last(), Some(Stmt::Expr(e, _)) if diverges(e)),
        _ => false,
    }
}

impl Pass {
    /// syntactic Option/Result classification (rule X12); Unknown means "leave the combinator alone"
    fn kind_of(&self, e: &Expr) -> Kind {
        match e {
            Expr::Paren(p) => self.kind_of(&p.expr),
            Expr::Reference(r) => self.kind_of(&r.expr),
            // a `match` / `if` / block whose every value-producing arm has the same known kind
            Expr::Match(m) => {
                let mut k: Option<Kind> = None;
                for a in m.arms.iter() {
                    if diverges(&a.body) {
                        continue;
                    }
                    let ka = self.kind_of(&a.body);
                    if ka == Kind::Unknown || (k.is_some() && k != Some(ka)) {
                        return Kind::Unknown;
                    }
                    k = Some(ka);
                }
                k.unwrap_or(Kind::Unknown)
            }
            Expr::If(i) => match &i.else_branch {
                Some((_, eb)) => {
                    let kt = match i.then_branch.stmts.last() {
                        Some(Stmt::Expr(e, None)) => self.kind_of(e),
                        _ => Kind::Unknown,
                    };
                    if kt != Kind::Unknown && self.kind_of(eb) == kt { kt } else { Kind::Unknown }
                }
                None => Kind::Unknown,
            },
            Expr::Block(b) => match b.block.stmts.last() {
                Some(Stmt::Expr(e, None)) => self.kind_of(e),
                _ => Kind::Unknown,
            },
            Expr::Path(p) => match p.path.get_ident() {
                Some(id) => {
                    let n = id.to_string();
                    if n == "None" {
                        Kind::Opt
                    } else {
                        *self.kinds.get(&n).unwrap_or(&Kind::Unknown)
                    }
                }
                None => Kind::Unknown,
            },
            Expr::Field(f) => match &f.member {
                syn::Member::Named(id) => *self.field_kinds.get(&id.to_string()).unwrap_or(&Kind::Unknown),
                _ => Kind::Unknown,
            },
            Expr::Call(c) => {
                if let Expr::Path(p) = &*c.func {
                    if let Some(id) = p.path.get_ident() {
                        let n = id.to_string();
                        if n == "Some" {
                            return Kind::Opt;
                        }
                        if n == "Ok" || n == "Err" {
                            return Kind::Res;
                        }
                        if let Some(k) = self.field_kinds.get(&n) {
                            return *k;
                        }
                        if ["create_wrapped_basis_function", "create_index_mapping", "check_parameter_names", "check_parameter_count",
                            "extend_model", "model_function_jacobian", "evaluate_and_check"].contains(&n.as_str()) {
                            return Kind::Res;
                        }
                    }
                }
                Kind::Unknown
            }
            Expr::MethodCall(mc) => {
                let m = mc.method.to_string();
                match m.as_str() {
                    "ok" | "err" | "zip" | "filter" | "get" | "first" | "last" | "take" | "checked_sub" | "checked_add" | "xor"
                    | "try_inverse" | "try_svd" | "try_svd_unordered" | "cholesky" | "from_usize" | "from_f64" | "linear_coefficients"
                    | "residuals" | "jacobian" | "best_fit" | "position" | "find" | "max" | "min" | "pop" => Kind::Opt,
                    "ok_or" | "ok_or_else" | "map_err" | "pseudo_inverse" | "solve" | "eval" | "eval_partial_deriv" | "set_params"
                    | "build" | "try_into" | "try_from" | "try_calculate" | "fit" | "fit_with_statistics" => Kind::Res,
                    "map" | "and_then" | "as_ref" | "as_mut" | "cloned" | "copied" | "or_else" | "or" | "and" | "inspect" => self.kind_of(&mc.receiver),
                    _ => Kind::Unknown,
                }
            }
            _ => Kind::Unknown,
        }
    }

    /// X12: Option/Result combinators with a closure literal are expanded to the `match` they are defined to be
    fn x12(&mut self, e: &Expr) -> Option<Expr> {
        let mc = match e {
            Expr::MethodCall(mc) => mc,
            _ => return None,
        };
        let m = mc.method.to_string();
        if !["map", "and_then", "filter", "map_err", "unwrap_or_else", "ok_or_else", "or_else", "is_some_and", "map_or"].contains(&m.as_str()) {
            return None;
        }
        // X12b: the argument is the path of a conversion trait method (`and_then(TryInto::try_into)`): by the definition of
        // method-call syntax `Trait::method(v)` is `v.method()`
        if let (Some(Expr::Path(pa)), 1) = (mc.args.last(), mc.args.len()) {
            let segs: Vec<String> = pa.path.segments.iter().map(|s| s.ident.to_string()).collect();
            let n = segs.len();
            if n >= 2 && ((segs[n - 2] == "TryInto" && segs[n - 1] == "try_into") || (segs[n - 2] == "Into" && segs[n - 1] == "into")) {
                let meth = syn::Ident::new(&segs[n - 1], Span::call_site());
                let recv = &mc.receiver;
                let out: Option<Expr> = match (self.kind_of(&mc.receiver), m.as_str()) {
                    (Kind::Res, "and_then") => Some(parse_quote!(match #recv { Ok(__v) => __v.#meth(), Err(__e) => Err(__e) })),
                    (Kind::Res, "map") => Some(parse_quote!(match #recv { Ok(__v) => Ok(__v.#meth()), Err(__e) => Err(__e) })),
                    (Kind::Opt, "and_then") => Some(parse_quote!(match #recv { Some(__v) => __v.#meth(), None => None })),
                    (Kind::Opt, "map") => Some(parse_quote!(match #recv { Some(__v) => Some(__v.#meth()), None => None })),
                    _ => None,
                };
                if out.is_some() {
                    self.rw.note("X12", e.span().start().line);
                }
                return out;
            }
        }
        let clo = match mc.args.last() {
            Some(Expr::Closure(c)) => c.clone(),
            _ => return None,
        };
        let mut hx = HasEarlyExit(false);
        syn::visit::Visit::visit_expr(&mut hx, &clo.body);
        if hx.0 {
            return None;
        }
        let kind = self.kind_of(&mc.receiver);
        let recv = &mc.receiver;
        let body = &clo.body;
        let pat: Option<Pat> = clo.inputs.first().map(|p| match p {
            Pat::Type(pt) => (*pt.pat).clone(),
            other => other.clone(),
        });
        let out: Option<Expr> = match (kind, m.as_str(), mc.args.len(), clo.inputs.len()) {
            (Kind::Opt, "map", 1, 1) => Some(parse_quote!(match #recv { Some(#pat) => Some(#body), None => None })),
            (Kind::Opt, "and_then", 1, 1) => Some(parse_quote!(match #recv { Some(#pat) => #body, None => None })),
            (Kind::Opt, "filter", 1, 1) => Some(parse_quote!(match #recv { Some(__v) => if { let #pat = &__v; #body } { Some(__v) } else { None }, None => None })),
            (Kind::Opt, "unwrap_or_else", 1, 0) => Some(parse_quote!(match #recv { Some(__v) => __v, None => #body })),
            (Kind::Opt, "ok_or_else", 1, 0) => Some(parse_quote!(match #recv { Some(__v) => Ok(__v), None => Err(#body) })),
            (Kind::Opt, "or_else", 1, 0) => Some(parse_quote!(match #recv { Some(__v) => Some(__v), None => #body })),
            (Kind::Opt, "is_some_and", 1, 1) => Some(parse_quote!(match #recv { Some(#pat) => #body, None => false })),
            (Kind::Opt, "map_or", 2, 1) => {
                let d = &mc.args[0];
                Some(parse_quote!(match #recv { Some(#pat) => #body, None => #d }))
            }
            (Kind::Res, "map", 1, 1) => Some(parse_quote!(match #recv { Ok(#pat) => Ok(#body), Err(__e) => Err(__e) })),
            (Kind::Res, "and_then", 1, 1) => Some(parse_quote!(match #recv { Ok(#pat) => #body, Err(__e) => Err(__e) })),
            (Kind::Res, "map_err", 1, 1) => Some(parse_quote!(match #recv { Ok(__v) => Ok(__v), Err(#pat) => Err(#body) })),
            (Kind::Res, "unwrap_or_else", 1, 1) => Some(parse_quote!(match #recv { Ok(__v) => __v, Err(#pat) => #body })),
            (Kind::Res, "or_else", 1, 1) => Some(parse_quote!(match #recv { Ok(__v) => Ok(__v), Err(#pat) => #body })),
            _ => None,
        };
        if out.is_some() {
            self.rw.note("X12", e.span().start().line);
        }
        out
    }

    fn proof_stmt(k: usize) -> Stmt {
        let lit = proc_macro2::Literal::usize_unsuffixed(k);
        parse_quote!(__vp_proof!(#lit);)
    }
}

impl VisitMut for Pass {
    fn visit_block_mut(&mut self, b: &mut Block) {
        // X12 bookkeeping: Option/Result kind of every `let x = init;` of this block, from the text as written
        for st in b.stmts.iter() {
            if let Stmt::Local(l) = st {
                if let (Some(id), Some(init)) = (pat_ident(&l.pat), l.init.as_ref()) {
                    let k = self.kind_of(&init.expr);
                    self.kinds.insert(id.to_string(), k);
                }
            }
        }
        // X17: a lazily mapped slice that is collected into `Result<Vec<_>, _>` as the function's result
        //   `let it = V.iter().map(|x| E); it.collect()`  ->  an index loop that pushes `E`'s Ok values and returns its
        //   first Err (what `FromIterator for Result` does); `E` is the real text
        let nst = b.stmts.len();
        if nst >= 2 && self.ret_kind == Kind::Res {
            let mut hit: Option<(syn::Ident, Expr, Pat, Expr)> = None;
            if let (Stmt::Local(l), Stmt::Expr(Expr::MethodCall(mc), None)) = (&b.stmts[nst - 2], &b.stmts[nst - 1]) {
                if let (Some(id), Some(init)) = (pat_ident(&l.pat), l.init.as_ref()) {
                    let tail_ok = mc.method == "collect" && mc.args.is_empty() && matches!(&*mc.receiver, Expr::Path(p) if p.path.is_ident(&id));
                    let (base, links) = unchain(&init.expr);
                    if tail_ok && init.diverge.is_none() && names(&links) == ["iter", "map"] {
                        if let Some(Expr::Closure(c)) = links[1].args.first() {
                            let mut hx = HasEarlyExit(false);
                            syn::visit::Visit::visit_expr(&mut hx, &c.body);
                            if c.inputs.len() == 1 && !hx.0 {
                                let pat = match &c.inputs[0] { Pat::Type(pt) => (*pt.pat).clone(), other => other.clone() };
                                hit = Some((id, base, pat, (*c.body).clone()));
                            }
                        }
                    }
                }
            }
            if let Some((_id, base, pat, body)) = hit {
                let line = b.stmts[nst - 2].span().start().line;
                b.stmts.truncate(nst - 2);
                match &self.ret_ok_ty {
                    Some(t) => b.stmts.push(parse_quote!(let mut __out: #t = Vec::new();)),
                    None => b.stmts.push(parse_quote!(let mut __out = Vec::new();)),
                }
                b.stmts.push(parse_quote!(let __n = #base.len();));
                b.stmts.push(parse_quote!(let mut __i: usize = 0;));
                b.stmts.push(Stmt::Expr(parse_quote!(while __i < __n {
                    let #pat = &#base[__i];
                    match #body { Ok(__v) => { __out.push(__v); } Err(__e) => { return Err(__e); } }
                    __i = __vp_succ(__i);
                }), None));
                b.stmts.push(Stmt::Expr(parse_quote!(Ok(__out)), None));
                self.rw.note("X17", line);
            }
        }
        // X4 at statement level (top-down), then recurse
        let mut out: Vec<Stmt> = vec![];
        for st in b.stmts.drain(..) {
            if let Some(mut rep) = self.rw.x4_stmt(&st) {
                // `continue` / `break` of the original loop: in the index loop they must first run what the iterator protocol
                // did implicitly (give the column back, advance the index)
                for r in rep.iter_mut() {
                    if let Stmt::Expr(Expr::While(w), _) = r {
                        if !fix_jumps(&mut w.body) {
                            self.rw.err = Some("unsupported labeled break/continue in a rewritten iterator loop".to_string());
                        }
                    }
                }
                out.extend(rep);
            } else {
                out.push(st);
            }
        }
        b.stmts = out;
        // anchors "after_let NAME"
        let mut out: Vec<Stmt> = vec![];
        for st in b.stmts.drain(..) {
            let mut after: Vec<usize> = vec![];
            let st_text = norm(&st.to_token_stream().to_string());
            let mut before: Vec<usize> = vec![];
            for (k, (anchor, _)) in self.proofs.iter().enumerate() {
                if self.used_proofs[k] {
                    continue;
                }
                if let Some(t) = anchor.strip_prefix("before_stmt ") {
                    if st_text.starts_with(&norm(t)) {
                        before.push(k);
                    }
                }
                if let Some(t) = anchor.strip_prefix("after_stmt ") {
                    if st_text.starts_with(&norm(t)) {
                        after.push(k);
                    }
                }
            }
            for k in before {
                self.used_proofs[k] = true;
                out.push(Self::proof_stmt(k));
            }
            if let Stmt::Local(l) = &st {
                if let Some(id) = pat_ident(&l.pat) {
                    for (k, (anchor, _)) in self.proofs.iter().enumerate() {
                        if !self.used_proofs[k] && anchor == &format!("after_let {}", id) {
                            after.push(k);
                        }
                    }
                }
            }
            out.push(st);
            for k in after {
                self.used_proofs[k] = true;
                out.push(Self::proof_stmt(k));
            }
        }
        b.stmts = out;
        visit_mut::visit_block_mut(self, b);
        // anchors "after_loop N": right after the statement that is loop N (numbered during the recursion above)
        let mut out: Vec<Stmt> = vec![];
        for st in b.stmts.drain(..) {
            let mut ordinal: Option<usize> = None;
            let body: Option<&Block> = match &st {
                Stmt::Expr(Expr::While(w), _) => Some(&w.body),
                Stmt::Expr(Expr::ForLoop(f), _) => Some(&f.body),
                _ => None,
            };
            if let Some(bd) = body {
                if let Some(Stmt::Macro(sm)) = bd.stmts.first() {
                    if macro_name(&sm.mac) == "__vp_loop_spec" {
                        ordinal = sm.mac.tokens.to_string().trim().parse().ok();
                    }
                }
            }
            if let Some(n) = ordinal {
                for k in 0..self.proofs.len() {
                    if !self.used_proofs[k] && self.proofs[k].0 == format!("before_loop {}", n) {
                        self.used_proofs[k] = true;
                        out.push(Self::proof_stmt(k));
                    }
                }
            }
            out.push(st);
            if let Some(n) = ordinal {
                for k in 0..self.proofs.len() {
                    if !self.used_proofs[k] && self.proofs[k].0 == format!("after_loop {}", n) {
                        self.used_proofs[k] = true;
                        out.push(Self::proof_stmt(k));
                    }
                }
            }
        }
        b.stmts = out;
    }

    fn visit_stmt_mut(&mut self, s: &mut Stmt) {
        // X6 on statement macros
        if let Stmt::Macro(sm) = s {
            let line = sm.span().start().line;
            if let Some(mut e) = self.rw.x6(&sm.mac, line) {
                self.visit_expr_mut(&mut e);
                *s = Stmt::Expr(e, Some(Default::default()));
                return;
            }
            if macro_name(&sm.mac).starts_with("__vp_") {
                return;
            }
            self.rw.err = Some(format!("unsupported macro {} at line {}", macro_name(&sm.mac), line));
            return;
        }
        visit_mut::visit_stmt_mut(self, s);
    }

    fn visit_path_mut(&mut self, p: &mut syn::Path) {
        visit_mut::visit_path_mut(self, p);
    }

    fn visit_type_mut(&mut self, t: &mut syn::Type) {
        if let syn::Type::Path(tp) = t {
            let line = tp.span().start().line;
            if x1_path(&mut tp.path, &mut tp.qself) {
                self.rw.note("X1", line);
            }
        }
        visit_mut::visit_type_mut(self, t);
    }

    fn visit_expr_mut(&mut self, e: &mut Expr) {
        let line = e.span().start().line;
        // X13 / X15 (pre-order): iterator plumbing over slices
        if let Some(n) = self.x13(e) {
            *e = n;
        } else if let Some(n) = self.x15(e) {
            *e = n;
        }
        // X12 first (pre-order): the closure literal of an Option/Result combinator disappears into a match
        if let Some(n) = self.x12(e) {
            *e = n;
        }
        // X1: `n as f64` for an unsigned machine integer n -> the prelude's exact conversion (floats are reals, DESIGN 11)
        if let Expr::Cast(c) = e {
            if norm(&c.ty.to_token_stream().to_string()) == "f64" {
                let inner = &c.expr;
                *e = parse_quote!(__vp_usize_as_f64(#inner));
                self.rw.note("X1", line);
            }
        }
        // X16 (pre-order): reference patterns in match arms and if-let
        match e {
            Expr::Match(m) => {
                for arm in m.arms.iter_mut() {
                    let mut rp = RefPats(vec![]);
                    rp.visit_pat_mut(&mut arm.pat);
                    if !rp.0.is_empty() {
                        let lets = x16_lets(&rp.0);
                        if let Some((_, g)) = arm.guard.as_mut() {
                            let old = (**g).clone();
                            **g = parse_quote!({ #(#lets)* #old });
                        }
                        let old = (*arm.body).clone();
                        arm.body = Box::new(parse_quote!({ #(#lets)* #old }));
                        self.rw.note("X16", line);
                    }
                }
            }
            Expr::If(i) => {
                if let Expr::Let(l) = &mut *i.cond {
                    let mut rp = RefPats(vec![]);
                    rp.visit_pat_mut(&mut l.pat);
                    if !rp.0.is_empty() {
                        let lets = x16_lets(&rp.0);
                        for (k, st) in lets.into_iter().enumerate() {
                            i.then_branch.stmts.insert(k, st);
                        }
                        self.rw.note("X16", line);
                    }
                }
            }
            _ => {}
        }
        // X18 (pre-order): `&E[..]` -> `E.as_slice()` (the whole of a Vec as a slice)
        let mut full: Option<Expr> = None;
        if let Expr::Reference(r) = &*e {
            if r.mutability.is_none() {
                if let Expr::Index(ix) = &*r.expr {
                    if let Expr::Range(rg) = &*ix.index {
                        if rg.start.is_none() && rg.end.is_none() {
                            full = Some((*ix.expr).clone());
                        }
                    }
                }
            }
        }
        if let Some(base) = full {
            *e = parse_quote!(#base.as_slice());
            self.rw.note("X18", line);
        }
        // pre-order handling of loops and closures so ordinals follow source order
        match e {
            Expr::ForLoop(f) => {
                self.loop_count += 1;
                let lit = proc_macro2::Literal::usize_unsuffixed(self.loop_count);
                f.body.stmts.insert(0, parse_quote!(__vp_loop_spec!(#lit);));
                let n = self.loop_count;
                self.insert_loop_end(&mut f.body, n);
            }
            Expr::While(w) => {
                self.loop_count += 1;
                let lit = proc_macro2::Literal::usize_unsuffixed(self.loop_count);
                w.body.stmts.insert(0, parse_quote!(__vp_loop_spec!(#lit);));
                let n = self.loop_count;
                self.insert_loop_end(&mut w.body, n);
            }
            Expr::Loop(l) => {
                self.loop_count += 1;
                let lit = proc_macro2::Literal::usize_unsuffixed(self.loop_count);
                l.body.stmts.insert(0, parse_quote!(__vp_loop_spec!(#lit);));
            }
            Expr::Closure(c) => {
                self.closure_count += 1;
                let n = self.closure_count;
                // X3: tuple patterns
                let mut pre: Vec<Stmt> = vec![];
                for (i, p) in c.inputs.iter_mut().enumerate() {
                    let inner = match p {
                        Pat::Type(pt) => &mut *pt.pat,
                        other => other,
                    };
                    if let Pat::Tuple(_) = inner {
                        let id = syn::Ident::new(&format!("__p{}", i), Span::call_site());
                        let pat = inner.clone();
                        pre.push(parse_quote!(let #pat = #id;));
                        *inner = parse_quote!(#id);
                        self.rw.note("X3", line);
                    }
                }
                let body = &c.body;
                let nb: Expr = match &**body {
                    Expr::Block(b) if pre.is_empty() => Expr::Block(b.clone()),
                    other => parse_quote!({ #(#pre)* #other }),
                };
                c.body = Box::new(nb);
                // recurse into the body first
                visit_mut::visit_expr_mut(self, &mut c.body);
                let lit = proc_macro2::Literal::usize_unsuffixed(n);
                let inputs = &c.inputs;
                let body = &c.body;
                let cap = &c.capture;
                *e = parse_quote!(__vp_closure!(#lit, #cap |#inputs| #body));
                return;
            }
            _ => {}
        }
        visit_mut::visit_expr_mut(self, e);
        match e {
            // X5: unsafe { E.assume_init() } -> E
            Expr::Unsafe(u) => {
                if u.block.stmts.len() == 1 {
                    if let Stmt::Expr(Expr::MethodCall(mc), None) = &u.block.stmts[0] {
                        if mc.method == "assume_init" && mc.args.is_empty() {
                            let inner = (*mc.receiver).clone();
                            *e = inner;
                            self.rw.note("X5", line);
                            return;
                        }
                    }
                }
                self.rw.err = Some(format!("unsupported unsafe block at line {}", line));
            }
            // X18: `&E[..]` (the whole of a Vec as a slice) is `E.as_slice()`; any other range index has no specification in
            // vstd -- Verus would accept it with an unconstrained result, and a proof that then fails would be a false alarm --
            // so it is an unsupported construct (the function is degraded, never judged)
            Expr::Reference(r) if r.mutability.is_none() && matches!(&*r.expr, Expr::Index(ix) if matches!(&*ix.index, Expr::Range(rg) if rg.start.is_none() && rg.end.is_none())) => {
                if let Expr::Index(ix) = &*r.expr {
                    let base = (*ix.expr).clone();
                    *e = parse_quote!(#base.as_slice());
                    self.rw.note("X18", line);
                    self.visit_expr_mut(e);
                    return;
                }
            }
            Expr::Index(ix) if matches!(&*ix.index, Expr::Range(_)) => {
                self.rw.err = Some(format!("unsupported range index at line {}", line));
            }
            // X6 on expression macros
            Expr::Macro(m) => {
                if macro_name(&m.mac).starts_with("__vp_") {
                    return;
                }
                if let Some(mut n) = self.rw.x6(&m.mac, line) {
                    self.visit_expr_mut(&mut n);
                    *e = n;
                } else {
                    self.rw.err = Some(format!("unsupported macro {} at line {}", macro_name(&m.mac), line));
                }
            }
            // X7: (f)(a, b) -> f.call(a, b)
            Expr::Call(c) => {
                if let (Expr::Paren(p), true) = (&*c.func, self.x7_off) {
                    // a generic `F: Fn(..)` callable: called natively
                    let f = &p.expr;
                    let args = &c.args;
                    *e = parse_quote!(#f(#args));
                    return;
                }
                // X13c: `leaf(E.iter())` -> `leaf(E)` for the assumed leaves named by the contracts
                if let Expr::Path(p) = &*c.func {
                    if let Some(id) = p.path.get_ident() {
                        if self.iterarg.contains(&id.to_string()) {
                            for a in c.args.iter_mut() {
                                if let Expr::MethodCall(mc) = a {
                                    if mc.method == "iter" && mc.args.is_empty() {
                                        let r = (*mc.receiver).clone();
                                        *a = r;
                                    }
                                }
                            }
                            self.rw.note("X13", line);
                        }
                    }
                }
                if let Expr::Paren(p) = &*c.func {
                    let f = &p.expr;
                    let args = &c.args;
                    *e = parse_quote!(#f.call(#args));
                    self.rw.note("X7", line);
                    return;
                }
                // X7b: Box::new(callable) -> BaseFunc::from_closure(callable, Ghost(__gN)) (the ghost function comes from the contracts)
                if let Expr::Path(p) = &*c.func {
                    if path_str(&p.path) == "Box::new" && c.args.len() == 1 {
                        self.box_count += 1;
                        let g = syn::Ident::new(&format!("__g{}", self.box_count), Span::call_site());
                        let rq = syn::Ident::new(&format!("__rq{}", self.box_count), Span::call_site());
                        let a = &c.args[0];
                        *e = parse_quote!(BaseFunc::from_closure(#a, Ghost(#g), Ghost(#rq)));
                        self.rw.note("X7b", line);
                        return;
                    }
                }
                // X1: Dyn(e) -> e
                if let Expr::Path(p) = &*c.func {
                    if p.path.is_ident("Dyn") && c.args.len() == 1 {
                        let a = c.args[0].clone();
                        *e = parse_quote!((#a));
                        if let Expr::Paren(pp) = e {
                            // drop the parens when the argument is atomic
                            match &*pp.expr {
                                Expr::Path(_) | Expr::Lit(_) | Expr::MethodCall(_) | Expr::Call(_) | Expr::Field(_) => {
                                    let inner = (*pp.expr).clone();
                                    *e = inner;
                                }
                                _ => {}
                            }
                        }
                        self.rw.note("X1", line);
                    }
                }
            }
            Expr::Path(p) => {
                if x1_path(&mut p.path, &mut p.qself) {
                    self.rw.note("X1", line);
                }
                if p.qself.is_none() && p.path.segments.len() >= 2 {
                    let first = p.path.segments[0].ident.to_string();
                    let mut to: Option<String> = None;
                    if first == "f64" {
                        to = Some("F64".into());
                    }
                    for (a, b) in &self.subst {
                        if &first == a {
                            to = Some(b.clone());
                        }
                    }
                    if let Some(t) = to {
                        let seg = p.path.segments.first_mut().unwrap();
                        seg.ident = syn::Ident::new(&t, seg.ident.span());
                        self.rw.note("X1", line);
                    }
                }
            }
            // X1: a float literal becomes the exact rational it denotes
            Expr::Lit(l) => {
                if let syn::Lit::Float(f) = &l.lit {
                    let digits = f.base10_digits().to_string();
                    if !digits.contains('e') && !digits.contains('E') {
                        let (ip, fp) = match digits.split_once('.') {
                            Some((a, b)) => (a.to_string(), b.to_string()),
                            None => (digits.clone(), String::new()),
                        };
                        let num: u64 = format!("{}{}", ip, fp).parse().unwrap_or(0);
                        let den: u64 = 10u64.pow(fp.len() as u32);
                        let (n, d) = (proc_macro2::Literal::u64_unsuffixed(num), proc_macro2::Literal::u64_unsuffixed(den));
                        *e = parse_quote!(__vp_flit(#n, #d));
                        self.rw.note("X1", line);
                    } else {
                        self.rw.err = Some(format!("unsupported float literal {} at line {}", digits, line));
                    }
                }
            }
            Expr::Struct(s) => {
                if x1_path(&mut s.path, &mut s.qself) {
                    self.rw.note("X1", line);
                }
            }
            // X10: M[(i, j)] = e -> M.set(i, j, e);   M.column_mut(i).copy_from(&E) -> M.set_column(i, &E)
            Expr::Assign(a) => {
                if let Expr::Index(ix) = &*a.left {
                    if let Expr::Tuple(t) = &*ix.index {
                        if t.elems.len() == 2 {
                            let (m, i, j, r) = (&ix.expr, &t.elems[0], &t.elems[1], &a.right);
                            *e = parse_quote!(#m.set(#i, #j, #r));
                            self.rw.note("X10", line);
                        }
                    }
                }
            }
            Expr::MethodCall(mc) if mc.method == "into" && mc.args.is_empty() && self.into_fn.is_some() => {
                let f = syn::Ident::new(self.into_fn.as_ref().unwrap(), Span::call_site());
                let r = &mc.receiver;
                *e = parse_quote!(#f(#r));
                self.rw.note("X1", line);
            }
            Expr::MethodCall(mc) if mc.method == "as_ref" && mc.args.is_empty() && self.asref_fn.is_some() => {
                let f = syn::Ident::new(self.asref_fn.as_ref().unwrap(), Span::call_site());
                let r = &mc.receiver;
                *e = parse_quote!(#f(&#r));
                self.rw.note("X1", line);
            }
            Expr::MethodCall(mc) if mc.method == "contains" && mc.args.len() == 1 && matches!(&mc.args[0], Expr::Lit(l) if matches!(l.lit, syn::Lit::Char(_))) => {
                let (r, c) = (&mc.receiver, &mc.args[0]);
                *e = parse_quote!(__vp_str_contains_char(&#r, #c));
                self.rw.note("X1", line);
            }
            Expr::MethodCall(mc) => {
                if mc.method == "copy_from" && mc.args.len() == 1 {
                    if let Expr::MethodCall(inner) = &*mc.receiver {
                        if inner.method == "column_mut" && inner.args.len() == 1 {
                            let (m, i, src) = (&inner.receiver, &inner.args[0], &mc.args[0]);
                            *e = parse_quote!(#m.set_column(#i, #src));
                            self.rw.note("X10", line);
                            return;
                        }
                    }
                }
                // turbofish on collect etc. stays; nothing else
            }
            // X2: overloaded operators as the trait calls they desugar to
            Expr::Binary(b) => {
                let (l, r) = (&b.left, &b.right);
                let new: Option<Expr> = match b.op {
                    syn::BinOp::Mul(_) => Some(parse_quote!(::core::ops::Mul::mul(#l, #r))),
                    syn::BinOp::Sub(_) => Some(parse_quote!(::core::ops::Sub::sub(#l, #r))),
                    syn::BinOp::Add(_) => Some(parse_quote!(::core::ops::Add::add(#l, #r))),
                    syn::BinOp::Div(_) => Some(parse_quote!(::core::ops::Div::div(#l, #r))),
                    _ => None,
                };
                if let Some(n) = new {
                    *e = n;
                    self.rw.note("X2", line);
                }
            }
            // X2: unary minus as the trait call it desugars to
            Expr::Unary(u) if matches!(u.op, syn::UnOp::Neg(_)) => {
                let inner = &u.expr;
                *e = parse_quote!(::core::ops::Neg::neg(#inner));
                self.rw.note("X2", line);
            }
            // X11: e? with error conversion -> the match it is defined to be
            Expr::Try(t) if self.rw.try_match => {
                let inner = &t.expr;
                *e = parse_quote!(match #inner { Ok(__v) => __v, Err(__e) => return Err(::core::convert::From::from(__e)) });
                self.rw.note("X11", line);
            }
            _ => {}
        }
    }
}

impl Pass {
    fn insert_loop_end(&mut self, body: &mut Block, n: usize) {
        // `loop_begin N`: right after the loop specification, before the first statement of the body
        for (k, (anchor, _)) in self.proofs.iter().enumerate() {
            if !self.used_proofs[k] && anchor == &format!("loop_begin {}", n) {
                self.used_proofs[k] = true;
                let at = if body.stmts.is_empty() { 0 } else { 1 };
                body.stmts.insert(at, Self::proof_stmt(k));
            }
        }
        for (k, (anchor, _)) in self.proofs.iter().enumerate() {
            if !self.used_proofs[k] && anchor == &format!("loop_end {}", n) {
                self.used_proofs[k] = true;
                body.stmts.push(Self::proof_stmt(k));
            }
        }
    }
}

pub fn extract(ast: &syn::File, file: &str, spec: &FnSpec, pr: &mut Printer) -> Result<Value, Fail> {
    let mut found = vec![];
    collect(&ast.items, &spec.attrs, &mut found);
    let id = spec.attrs.get("id").cloned().unwrap_or_default();
    let nth: Option<usize> = spec.attrs.get("nth").and_then(|s| s.parse().ok());
    let f = match (found.len(), nth) {
        (0, _) => bail!("lost anchor: {} not found in {} ({:?})", id, file, spec.attrs),
        (1, None) => found.remove(0),
        (n, Some(k)) if k < n => found.remove(k),
        (n, _) => bail!("lost anchor: {} is ambiguous in {} ({} candidates)", id, file, n),
    };
    // parameter names must be the ones the contract was written for
    if let Some(want) = spec.attrs.get("params") {
        let want: Vec<String> = if want.is_empty() { vec![] } else { want.split(',').map(|s| s.to_string()).collect() };
        let got: Vec<String> = f
            .sig
            .inputs
            .iter()
            .map(|a| match a {
                syn::FnArg::Receiver(_) => "self".to_string(),
                syn::FnArg::Typed(t) => norm(&t.pat.to_token_stream().to_string()).trim_start_matches("mut").to_string(),
            })
            .collect();
        if got != want {
            bail!("lost anchor: {} has parameters {:?}, contract expects {:?}", id, got, want);
        }
    }
    let mut block = f.block.clone();
    // X14: `mut self` receivers are not supported by Verus: `self` is renamed to `__self` behind `let mut __self = self;`
    let mut_self = f.sig.inputs.first().map(|a| matches!(a, syn::FnArg::Receiver(r) if r.mutability.is_some() && r.reference.is_none())).unwrap_or(false);
    if mut_self {
        struct RenameSelf;
        impl VisitMut for RenameSelf {
            fn visit_ident_mut(&mut self, i: &mut syn::Ident) {
                if i == "self" {
                    *i = syn::Ident::new("__self", i.span());
                }
            }
            fn visit_macro_mut(&mut self, m: &mut syn::Macro) {
                // macro arguments are token trees: rename there as well
                let ts: proc_macro2::TokenStream = m.tokens.clone().into_iter().map(|t| rename_tt(t)).collect();
                m.tokens = ts;
            }
        }
        fn rename_tt(t: proc_macro2::TokenTree) -> proc_macro2::TokenTree {
            match t {
                proc_macro2::TokenTree::Ident(i) if i == "self" => proc_macro2::TokenTree::Ident(proc_macro2::Ident::new("__self", i.span())),
                proc_macro2::TokenTree::Group(g) => {
                    let inner: proc_macro2::TokenStream = g.stream().into_iter().map(rename_tt).collect();
                    let mut ng = proc_macro2::Group::new(g.delimiter(), inner);
                    ng.set_span(g.span());
                    proc_macro2::TokenTree::Group(ng)
                }
                other => other,
            }
        }
        RenameSelf.visit_block_mut(&mut block);
        block.stmts.insert(0, parse_quote!(let mut __self = self;));
    }
    // X14b: `mut x: T` parameters (the template declares them without `mut`): shadowed by `let mut x = x;`
    let mut mut_params: Vec<syn::Ident> = vec![];
    for a in f.sig.inputs.iter() {
        if let syn::FnArg::Typed(pt) = a {
            if let Pat::Ident(pi) = &*pt.pat {
                if pi.mutability.is_some() && pi.by_ref.is_none() {
                    mut_params.push(pi.ident.clone());
                }
            }
        }
    }
    for (k, x) in mut_params.iter().enumerate() {
        block.stmts.insert(k, parse_quote!(let mut #x = #x;));
    }
    let subst: Vec<(String, String)> = spec
        .attrs
        .get("subst")
        .map(|s| s.split(',').filter_map(|kv| kv.split_once(':').map(|(a, b)| (a.to_string(), b.to_string()))).collect())
        .unwrap_or_default();
    let mut field_kinds: BTreeMap<String, Kind> = BTreeMap::new();
    // X12 bookkeeping: Option / Result fields of the receiver's struct, read off its declaration in the same file
    if let Some(st) = spec.attrs.get("self") {
        let name: String = st.trim_start_matches('&').chars().take_while(|c| c.is_alphanumeric() || *c == '_').collect();
        if let Some(sd) = find_struct(&ast.items, &name) {
            for fld in sd.fields.iter() {
                if let (Some(id), syn::Type::Path(tp)) = (&fld.ident, &fld.ty) {
                    match tp.path.segments.last().map(|s| s.ident.to_string()).as_deref() {
                        Some("Option") => { field_kinds.insert(id.to_string(), Kind::Opt); }
                        Some("Result") => { field_kinds.insert(id.to_string(), Kind::Res); }
                        _ => {}
                    }
                }
            }
        }
    }
    if let Some(k) = spec.attrs.get("kinds") {
        for kv in k.split(',') {
            if let Some((a, b)) = kv.split_once(':') {
                field_kinds.insert(a.to_string(), if b == "Option" { Kind::Opt } else if b == "Result" { Kind::Res } else { Kind::Unknown });
            }
        }
    }
    let mut pass = Pass {
        x7_off: spec.attrs.contains_key("x7off"),
        iterarg: spec.attrs.get("iterarg").map(|s| s.split(',').map(|x| x.to_string()).collect()).unwrap_or_default(),
        into_fn: spec.attrs.get("into").cloned(),
        asref_fn: spec.attrs.get("asref").cloned(),
        ret_ok_ty: match &f.sig.output {
            syn::ReturnType::Type(_, t) => match &**t {
                syn::Type::Path(tp) => match tp.path.segments.last() {
                    Some(seg) if seg.ident == "Result" => match &seg.arguments {
                        syn::PathArguments::AngleBracketed(ab) => match ab.args.first() {
                            Some(syn::GenericArgument::Type(t0)) => Some(t0.clone()),
                            _ => None,
                        },
                        _ => None,
                    },
                    _ => None,
                },
                _ => None,
            },
            _ => None,
        },
        ret_kind: match &f.sig.output {
            syn::ReturnType::Type(_, t) => match &**t {
                syn::Type::Path(tp) => match tp.path.segments.last().map(|s| s.ident.to_string()).as_deref() {
                    Some("Result") => Kind::Res,
                    Some("Option") => Kind::Opt,
                    _ => Kind::Unknown,
                },
                _ => Kind::Unknown,
            },
            _ => Kind::Unknown,
        },
        box_count: 0,
        kinds: BTreeMap::new(),
        field_kinds,
        subst,
        rw: Rw { log: vec![], try_match: spec.attrs.contains_key("try_match"), err: None },
        closure_count: 0,
        loop_count: 0,
        proofs: spec.proofs.clone(),
        used_proofs: vec![false; spec.proofs.len()],
    };
    if mut_self || !mut_params.is_empty() {
        pass.rw.note("X14", f.line_start);
    }
    pass.visit_block_mut(&mut block);
    if let Some(e) = pass.rw.err.take() {
        bail!("unsupported construct in {} ({}): {}", id, file, e);
    }
    // proofs anchored at "end" go before the tail expression (or at the very end)
    for (k, (anchor, _)) in spec.proofs.iter().enumerate() {
        if anchor == "end" {
            pass.used_proofs[k] = true;
            let st = Pass::proof_stmt(k);
            let has_tail = matches!(block.stmts.last(), Some(Stmt::Expr(_, None)));
            if has_tail {
                let pos = block.stmts.len() - 1;
                block.stmts.insert(pos, st);
            } else {
                block.stmts.push(st);
            }
        } else if anchor == "begin" {
            pass.used_proofs[k] = true;
            block.stmts.insert(0, Pass::proof_stmt(k));
        }
    }
    for (k, used) in pass.used_proofs.iter().enumerate() {
        if !used {
            bail!("lost anchor: proof block '{}' of {} found no place in the body", spec.proofs[k].0, id);
        }
    }
    // closure / loop counts must be what the contract table was written for
    let want_c: usize = spec.attrs.get("closures").and_then(|s| s.parse().ok()).unwrap_or(0);
    let want_l: usize = spec.attrs.get("loops").and_then(|s| s.parse().ok()).unwrap_or(0);
    let lenient = std::env::var("VP_EXTRACT_LENIENT").is_ok();
    if lenient {
        // exploration mode (never used by the checks): counts are not enforced, missing loop specs default to `invariant true`
        let mut spec2 = spec.clone();
        for n in 1..=pass.loop_count {
            spec2.loops.entry(n).or_insert_with(|| "  invariant true".to_string());
        }
        let fn_index = pr.cur_line();
        let gen_start = pr.cur_line();
        let ts: proc_macro2::TokenStream = block.stmts.iter().map(|s| s.to_token_stream()).collect();
        pr.print_fn_body(fn_index, ts, &spec2)?;
        return Ok(json!({"id": id, "file": file, "repo_lines": [f.line_start, f.line_end], "gen_lines": [gen_start, pr.cur_line()],
                         "fn_index": fn_index, "parallel_cfg": f.par, "rewrites": pass.rw.log, "tags": "", "safety_tags": "",
                         "closures": pass.closure_count, "loops": pass.loop_count}));
    }
    if pass.closure_count != want_c {
        bail!("lost anchor: {} has {} closures after rewriting, contracts expect {}", id, pass.closure_count, want_c);
    }
    if pass.loop_count != want_l {
        bail!("lost anchor: {} has {} loops after rewriting, contracts expect {}", id, pass.loop_count, want_l);
    }
    for n in spec.loops.keys() {
        if *n == 0 || *n > pass.loop_count {
            bail!("lost anchor: loop spec {} of {} has no loop", n, id);
        }
    }
    for n in 1..=pass.loop_count {
        if !spec.loops.contains_key(&n) {
            bail!("contracts: loop {} of {} has no spec", n, id);
        }
    }
    let fn_index = pr.cur_line();
    let gen_start = pr.cur_line();
    let ts: proc_macro2::TokenStream = block.stmts.iter().map(|s| s.to_token_stream()).collect();
    pr.print_fn_body(fn_index, ts, spec)?;
    let gen_end = pr.cur_line();
    Ok(json!({
        "id": id,
        "file": file,
        "repo_lines": [f.line_start, f.line_end],
        "gen_lines": [gen_start, gen_end],
        "fn_index": fn_index,
        "parallel_cfg": f.par,
        "rewrites": pass.rw.log,
        "tags": spec.attrs.get("tags").cloned().unwrap_or_default(),
        "safety_tags": spec.attrs.get("safety_tags").cloned().unwrap_or_default(),
    }))
}
