//! token printer that keeps a (generated line, column) -> (/repo line, column) map and
//! replaces the placeholders left by the rewriter with the injected Verus text (rule X9).
use crate::{Fail, FnSpec};
use proc_macro2::{Delimiter, Spacing, TokenStream, TokenTree};
use serde_json::{json, Value};

pub struct Printer {
    pub out: String,
    line: usize,
    col: usize,
    pub line_map: Vec<Value>,
    pub tok_map: Vec<Value>,
    at_line_start: bool,
    indent: usize,
    cur_fn: usize,
    last_joint: bool,
}

impl Printer {
    pub fn new() -> Self {
        Printer { out: String::new(), line: 1, col: 0, line_map: vec![], tok_map: vec![], at_line_start: true, indent: 0, cur_fn: 0, last_joint: false }
    }

    pub fn cur_line(&self) -> usize {
        self.line
    }

    pub fn template_line(&mut self, tl: usize, text: &str) {
        if !self.at_line_start {
            self.newline();
        }
        self.line_map.push(json!({"g": self.line, "t": tl}));
        self.out.push_str(text);
        self.out.push('\n');
        self.line += 1;
        self.col = 0;
        self.at_line_start = true;
    }

    /// raw injected text (contracts, loop specs, proof blocks); every line is marked as injected
    fn raw(&mut self, text: &str, what: &str) {
        if !self.at_line_start {
            self.newline();
        }
        for l in text.lines() {
            self.line_map.push(json!({"g": self.line, "inj": what, "fn": self.cur_fn}));
            for _ in 0..self.indent {
                self.out.push_str("  ");
            }
            self.out.push_str(l);
            self.out.push('\n');
            self.line += 1;
        }
        self.col = 0;
        self.at_line_start = true;
    }

    fn newline(&mut self) {
        self.out.push('\n');
        self.line += 1;
        self.col = 0;
        self.at_line_start = true;
        self.last_joint = false;
    }

    fn emit(&mut self, text: &str, src: Option<(usize, usize)>) {
        if self.at_line_start {
            for _ in 0..self.indent {
                self.out.push_str("  ");
                self.col += 2;
            }
            self.at_line_start = false;
            if let Some((l, _)) = src {
                let m = format!("/*L{}*/ ", l);
                self.out.push_str(&m);
                self.col += m.len();
            }
        } else if !self.last_joint {
            self.out.push(' ');
            self.col += 1;
        }
        if let Some((l, c)) = src {
            self.tok_map.push(json!([self.line, self.col, self.cur_fn, l, c]));
        }
        self.out.push_str(text);
        self.col += text.chars().count();
        self.last_joint = false;
    }

    pub fn print_fn_body(&mut self, fn_index: usize, ts: TokenStream, spec: &FnSpec) -> Result<(), Fail> {
        self.cur_fn = fn_index;
        if !self.at_line_start {
            self.newline();
        }
        self.indent = 1;
        self.emit("{", None);
        self.emit("/*@probe*/", None);
        self.newline();
        self.indent = 2;
        self.stream(ts, spec)?;
        if !self.at_line_start {
            self.newline();
        }
        self.indent = 1;
        self.emit("}", None);
        self.newline();
        self.indent = 0;
        Ok(())
    }

    fn src_of(tt: &TokenTree) -> Option<(usize, usize)> {
        let s = tt.span().start();
        if s.line <= 1 {
            None
        } else {
            Some((s.line, s.column))
        }
    }

    fn stream(&mut self, ts: TokenStream, spec: &FnSpec) -> Result<(), Fail> {
        let toks: Vec<TokenTree> = ts.into_iter().collect();
        let mut i = 0;
        // `for PAT in EXPR {` of loop N is printed as `for PAT in __itN: EXPR` so that the injected
        // invariant can name the ghost iterator (Verus syntax)
        let mut name_iter_at: Option<(usize, usize)> = None; // (index of `in`, loop ordinal)
        while i < toks.len() {
            if let TokenTree::Ident(id) = &toks[i] {
                if id == "for" {
                    let mut in_at = None;
                    for j in i + 1..toks.len() {
                        match &toks[j] {
                            TokenTree::Ident(x) if x == "in" && in_at.is_none() => in_at = Some(j),
                            TokenTree::Group(g) if g.delimiter() == Delimiter::Brace => {
                                let inner: Vec<TokenTree> = g.stream().into_iter().take(3).collect();
                                if inner.len() == 3 {
                                    if let (TokenTree::Ident(a), TokenTree::Group(ng)) = (&inner[0], &inner[2]) {
                                        if a == "__vp_loop_spec" {
                                            if let (Some(p), Ok(n)) = (in_at, ng.stream().to_string().trim().parse::<usize>()) {
                                                name_iter_at = Some((p, n));
                                            }
                                        }
                                    }
                                }
                                break;
                            }
                            TokenTree::Punct(p) if p.as_char() == ';' => break,
                            _ => {}
                        }
                    }
                }
            }
            if let Some((p, n)) = name_iter_at {
                if p == i {
                    let src = Self::src_of(&toks[i]);
                    self.emit("in", src);
                    self.emit(&format!("__it{}", n), None);
                    self.emit(":", None);
                    name_iter_at = None;
                    i += 1;
                    continue;
                }
            }
            // placeholders: IDENT ! ( .. )
            if let TokenTree::Ident(id) = &toks[i] {
                let name = id.to_string();
                if name.starts_with("__vp_") && i + 2 < toks.len() {
                    if let (TokenTree::Punct(p), TokenTree::Group(g)) = (&toks[i + 1], &toks[i + 2]) {
                        if p.as_char() == '!' {
                            let inner: Vec<TokenTree> = g.stream().into_iter().collect();
                            match name.as_str() {
                                "__vp_proof" => {
                                    let k: usize = inner[0].to_string().parse().unwrap();
                                    let text = spec.proofs[k].1.clone();
                                    self.raw(&text, "proof");
                                    i += 3;
                                    // swallow the trailing ';'
                                    if i < toks.len() {
                                        if let TokenTree::Punct(p) = &toks[i] {
                                            if p.as_char() == ';' {
                                                i += 1;
                                            }
                                        }
                                    }
                                    continue;
                                }
                                "__vp_closure" => {
                                    // N , | params | body-group
                                    let n: usize = inner[0].to_string().parse().unwrap();
                                    let hdr = match spec.closures.get(&n) {
                                        Some(h) => h.clone(),
                                        None => {
                                            // no contract for this closure: printed as written
                                            let rest: TokenStream = inner.iter().skip(2).cloned().collect();
                                            self.stream(rest, spec)?;
                                            i += 3;
                                            continue;
                                        }
                                    };
                                    // find the body: the last token must be a brace group
                                    let body = match inner.last() {
                                        Some(TokenTree::Group(bg)) if bg.delimiter() == Delimiter::Brace => bg.clone(),
                                        _ => return Err(Fail(format!("closure {}: body is not a block after rewriting", n))),
                                    };
                                    self.raw(hdr.trim_end(), "closure-contract");
                                    self.group(&body, spec)?;
                                    i += 3;
                                    continue;
                                }
                                _ => {}
                            }
                        }
                    }
                }
            }
            match &toks[i] {
                TokenTree::Group(g) => {
                    self.group(g, spec)?;
                }
                TokenTree::Punct(p) => {
                    let src = Self::src_of(&toks[i]);
                    let ch = p.as_char();
                    self.emit(&ch.to_string(), src);
                    if p.spacing() == Spacing::Joint {
                        self.last_joint = true;
                    }
                    if ch == ';' {
                        self.newline();
                    }
                }
                tt => {
                    let src = Self::src_of(tt);
                    let was_joint = self.last_joint;
                    // a lifetime is Punct(') joint + Ident: keep glued
                    self.last_joint = was_joint;
                    self.emit(&tt.to_string(), src);
                }
            }
            i += 1;
        }
        Ok(())
    }

    fn group(&mut self, g: &proc_macro2::Group, spec: &FnSpec) -> Result<(), Fail> {
        let (o, c) = match g.delimiter() {
            Delimiter::Parenthesis => ("(", ")"),
            Delimiter::Brace => ("{", "}"),
            Delimiter::Bracket => ("[", "]"),
            Delimiter::None => ("", ""),
        };
        if g.delimiter() == Delimiter::Brace {
            // hoist a leading loop-spec placeholder in front of the brace
            let inner: Vec<TokenTree> = g.stream().into_iter().collect();
            let mut start = 0;
            if inner.len() >= 4 {
                if let (TokenTree::Ident(id), TokenTree::Punct(p), TokenTree::Group(ng)) = (&inner[0], &inner[1], &inner[2]) {
                    if id == "__vp_loop_spec" && p.as_char() == '!' {
                        let n: usize = ng.stream().to_string().trim().parse().unwrap();
                        let text = spec.loops.get(&n).ok_or_else(|| Fail(format!("no loop spec for loop {}", n)))?.clone();
                        self.raw(text.trim_end(), "loop-spec");
                        start = 4; // ident ! (n) ;
                    }
                }
            }
            self.emit("{", None);
            if start == 4 {
                self.emit("/*@probe*/", None);
            }
            self.newline();
            self.indent += 1;
            let rest: TokenStream = inner.into_iter().skip(start).collect();
            self.stream(rest, spec)?;
            if !self.at_line_start {
                self.newline();
            }
            self.indent -= 1;
            self.emit("}", None);
        } else {
            let lj = self.last_joint;
            self.last_joint = lj;
            if !o.is_empty() {
                self.emit(o, None);
                self.last_joint = true; // no space after an opening bracket
            }
            self.stream(g.stream(), spec)?;
            if !c.is_empty() {
                self.last_joint = true;
                self.emit(c, None);
            }
        }
        Ok(())
    }
}
