//! Kani harnesses for src/statistics (injected as src/statistics/kani_harness.rs behind #[cfg(kani)]).
use super::FitStatistics;
use crate::model::SeparableModel;
use nalgebra::{DMatrix, DVector};

fn stats_f64() -> FitStatistics<SeparableModel<f64>> {
    FitStatistics {
        covariance_matrix: DMatrix::from_element(1, 1, 1.0),
        weighted_residuals: DVector::from_element(1, 0.0),
        reduced_chi2: 1.0,
        linear_coefficient_count: 1,
        degrees_of_freedom: 1,
        nonlinear_parameter_count: 0,
        unscaled_confidence_sigma: DVector::from_element(1, 1.0),
    }
}

/// C14: every probability outside (0,1) and every non-finite one is rejected by the documented panic:
/// no code after the assertion is reachable (loop-free prefix, complete over all f64 bit patterns).
#[kani::proof]
#[kani::should_panic]
fn cbr_rejects_bad_p_f64() {
    let p: f64 = kani::any();
    kani::assume(!(p.is_finite() && p > 0.0 && p < 1.0));
    let s = stats_f64();
    let _r = s.confidence_band_radius(p);
    kani::cover!(true, "confidence_band_radius returned for a rejected probability");
}

fn stats_f32() -> FitStatistics<SeparableModel<f32>> {
    FitStatistics {
        covariance_matrix: DMatrix::from_element(1, 1, 1.0),
        weighted_residuals: DVector::from_element(1, 0.0),
        reduced_chi2: 1.0,
        linear_coefficient_count: 1,
        degrees_of_freedom: 1,
        nonlinear_parameter_count: 0,
        unscaled_confidence_sigma: DVector::from_element(1, 1.0),
    }
}

/// C14, f32 models: the same rejection over all f32 bit patterns
#[kani::proof]
#[kani::should_panic]
fn cbr_rejects_bad_p_f32() {
    let p: f32 = kani::any();
    kani::assume(!(p.is_finite() && p > 0.0 && p < 1.0));
    let s = stats_f32();
    let _r = s.confidence_band_radius(p);
    kani::cover!(true, "confidence_band_radius returned for a rejected probability");
}

/// the `From<ModelError>` impl that thiserror's `#[from]` derives for `statistics::Error` wraps its argument in
/// `ModelEvaluation` (macro-generated code the Verus unit has to assume): loop-free, complete over the payload
#[kani::proof]
fn stats_error_from_model_error() {
    use crate::model::errors::ModelError;
    let index: usize = kani::any();
    let e: super::Error<ModelError> = ModelError::DerivativeIndexOutOfBounds { index }.into();
    assert!(matches!(e, super::Error::ModelEvaluation(ModelError::DerivativeIndexOutOfBounds { index: i }) if i == index));
    let (expected, actual): (usize, usize) = (kani::any(), kani::any());
    let e: super::Error<ModelError> = ModelError::IncorrectParameterCount { expected, actual }.into();
    assert!(matches!(e, super::Error::ModelEvaluation(ModelError::IncorrectParameterCount { expected: a, actual: b }) if a == expected && b == actual));
}

static mut LAST_Q: f64 = -1.0;
static mut LAST_NU: f64 = -1.0;
/// stands for distrs::StudentsT::ppf (Hill's algorithm: float-heavy, assumed): records its arguments
fn ppf_probe<T: Into<f64>>(p: f64, n: T) -> f64 {
    unsafe {
        LAST_Q = p;
        LAST_NU = n.into();
    }
    1.0
}

/// C14: the quantile handed to the Student-t distribution is EXACTLY (1 + p) / 2 (computed in f64: exact for every f32 p) and the
/// degrees of freedom are the stored ones -- complete over all f32 probabilities in (0, 1); catches a quantile computed in
/// reduced precision, a one-sided quantile, dof +- 1
#[kani::proof]
#[kani::stub(distrs::StudentsT::ppf, ppf_probe)]
fn cbr_quantile_argument_f32() {
    let p: f32 = kani::any();
    kani::assume(p > 0.0 && p < 1.0);
    let s = stats_f32();
    let r = s.confidence_band_radius(p);
    let (q, nu) = unsafe { (LAST_Q, LAST_NU) };
    assert!(q == ((p as f64) + 1.0) / 2.0);
    assert!(nu == 1.0);
    assert!(r.len() == 1);
}

/// the same for f64 models
#[kani::proof]
#[kani::stub(distrs::StudentsT::ppf, ppf_probe)]
fn cbr_quantile_argument_f64() {
    let p: f64 = kani::any();
    kani::assume(p > 0.0 && p < 1.0);
    let s = stats_f64();
    let r = s.confidence_band_radius(p);
    let (q, nu) = unsafe { (LAST_Q, LAST_NU) };
    assert!(q == (p + 1.0) / 2.0);
    assert!(nu == 1.0);
    assert!(r.len() == 1);
}

/// bounded validation of `concat_colwise`: [left | right] column placement (2 x 2 and 2 x 1)
#[kani::proof]
#[kani::unwind(6)]
fn concat_colwise_2x2_2x1() {
    let a: [u64; 4] = kani::any();
    let b: [u64; 2] = kani::any();
    let l = DMatrix::from_column_slice(2, 2, &a);
    let r = DMatrix::from_column_slice(2, 1, &b);
    let c = super::concat_colwise(l.clone(), r.clone());
    assert!(c.nrows() == 2 && c.ncols() == 3);
    let i: usize = kani::any();
    kani::assume(i < 2);
    assert!(c[(i, 0)] == l[(i, 0)] && c[(i, 1)] == l[(i, 1)] && c[(i, 2)] == r[(i, 0)]);
}

/// bounded validation of `extract_range`: the half-open range [1, 3) of a 4-vector
#[kani::proof]
#[kani::unwind(6)]
fn extract_range_1_3_of_4() {
    let a: [u64; 4] = kani::any();
    let v = DVector::from_column_slice(&a);
    let r = super::extract_range(&v, nalgebra::Dyn(1), nalgebra::Dyn(3));
    assert!(r.len() == 2 && r[0] == a[1] && r[1] == a[2]);
}

/// the two `CastF64` impls (src/statistics/numeric_traits) that the Verus prelude assumes to be value-preserving casts:
/// loop-free, complete over all f64 / f32 bit patterns. `from_f64` is the IEEE conversion to the scalar type (the identity
/// for f64), `into_f64` is exact, ZERO and ONE are 0 and 1.
#[kani::proof]
fn castf64_impls_are_plain_casts() {
    use super::numeric_traits::CastF64;
    let v: f64 = kani::any();
    assert!(<f64 as CastF64>::from_f64(v).to_bits() == v.to_bits());
    assert!(<f64 as CastF64>::into_f64(v).to_bits() == v.to_bits());
    assert!(<f32 as CastF64>::from_f64(v).to_bits() == (v as f32).to_bits());
    let w: f32 = kani::any();
    assert!(<f32 as CastF64>::into_f64(w).to_bits() == (w as f64).to_bits());
    // the widening cast is exact: narrowing it again gives the same f32 (for every non-NaN value)
    kani::assume(!w.is_nan());
    assert!((<f32 as CastF64>::into_f64(w) as f32).to_bits() == w.to_bits());
    assert!(<f64 as CastF64>::ZERO.to_bits() == 0.0f64.to_bits() && <f64 as CastF64>::ONE == 1.0f64);
    assert!(<f32 as CastF64>::ZERO.to_bits() == 0.0f32.to_bits() && <f32 as CastF64>::ONE == 1.0f32);
}
