//! Kani harnesses for src/statistics (injected as src/statistics/kani_harness.rs behind #[cfg(kani)]).
use super::FitStatistics;
use crate::model::SeparableModel;
use nalgebra::{DMatrix, DVector};

fn stats_f64() -> FitStatistics<SeparableModel<f64>> {
    FitStatistics {
        covariance_matrix: DMatrix::from_element(1, 1, 1.0),
        weighted_residuals: DVector::from_element(1, 0.0),
        reduced_chi2: 1.0,
        linear_coefficient_count: 1,
        degrees_of_freedom: 1,
        nonlinear_parameter_count: 0,
        unscaled_confidence_sigma: DVector::from_element(1, 1.0),
    }
}

/// C14: every probability outside (0,1) and every non-finite one is rejected by the documented panic:
/// no code after the assertion is reachable (loop-free prefix, complete over all f64 bit patterns).
#[kani::proof]
#[kani::should_panic]
fn cbr_rejects_bad_p_f64() {
    let p: f64 = kani::any();
    kani::assume(!(p.is_finite() && p > 0.0 && p < 1.0));
    let s = stats_f64();
    let _r = s.confidence_band_radius(p);
    kani::cover!(true, "confidence_band_radius returned for a rejected probability");
}
