//! Kani harnesses for src/solvers/levmar (injected as src/solvers/levmar/kani_harness.rs behind #[cfg(kani)]).
//! Bounded validation of leaf contracts that the Verus prelude assumes (never counted as proved).
use super::{copy_matrix_to_column, is_all_finite};
use crate::util::to_vector;
use nalgebra::DMatrix;

/// `is_all_finite` is true iff every entry is finite (2 x 2, all f64 bit patterns)
#[kani::proof]
#[kani::unwind(6)]
fn is_all_finite_2x2() {
    let a: [f64; 4] = kani::any();
    let m = DMatrix::from_column_slice(2, 2, &a);
    let expect = a[0].is_finite() && a[1].is_finite() && a[2].is_finite() && a[3].is_finite();
    assert!(is_all_finite(&m) == expect);
}

/// `to_vector` stacks the columns: element (i, j) lands at j * nrows + i (3 x 2)
#[kani::proof]
#[kani::unwind(8)]
fn to_vector_colmajor_3x2() {
    let a: [u64; 6] = kani::any();
    let m = DMatrix::from_column_slice(3, 2, &a);
    let v = to_vector(m.clone());
    assert!(v.len() == 6);
    let i: usize = kani::any();
    let j: usize = kani::any();
    kani::assume(i < 3 && j < 2);
    assert!(v[j * 3 + i] == m[(i, j)]);
}

/// `copy_matrix_to_column` stacks an N x S matrix into one column: element (i, j) lands at row j * N + i (2 x 3: three
/// right-hand sides, the smallest shape where a wrong block offset shows)
#[kani::proof]
#[kani::unwind(14)]
fn copy_matrix_to_column_2x3() {
    let a: [u64; 6] = kani::any();
    let src = DMatrix::from_column_slice(2, 3, &a);
    let mut jac: DMatrix<u64> = DMatrix::from_element(6, 2, 0u64);
    {
        let mut col = jac.column_mut(1);
        copy_matrix_to_column(src.clone(), &mut col);
    }
    let i: usize = kani::any();
    let j: usize = kani::any();
    kani::assume(i < 2 && j < 3);
    assert!(jac[(j * 2 + i, 1)] == src[(i, j)]);
    // the other column is untouched
    let r: usize = kani::any();
    kani::assume(r < 6);
    assert!(jac[(r, 0)] == 0);
}
