//! Kani harnesses that validate, on small concrete shapes, contracts the Verus prelude ASSUMES of nalgebra 0.33
//! (injected as src/util/kani_harness.rs behind #[cfg(kani)]). Bounded: shapes are fixed, entries symbolic.
//! Placement and shape only (integer entries); floating-point arithmetic is not exercised.
use nalgebra::{DMatrix, DVector, Dyn, U1};

fn idx2(r: usize, c: usize) -> (usize, usize) {
    let i: usize = kani::any();
    let j: usize = kani::any();
    kani::assume(i < r && j < c);
    (i, j)
}

/// prelude `transpose`: m@ == mtr(self@)
#[kani::proof]
#[kani::unwind(8)]
fn na_transpose_2x3() {
    let a: [u8; 6] = kani::any();
    let m = DMatrix::from_column_slice(2, 3, &a);
    let t = m.transpose();
    assert!(t.nrows() == 3 && t.ncols() == 2);
    let (i, j) = idx2(2, 3);
    assert!(t[(j, i)] == m[(i, j)]);
}

/// prelude `column(j)`: v@ == col(self@, j); `from_column_slice` is column-major
#[kani::proof]
#[kani::unwind(8)]
fn na_column_view_3x2() {
    let a: [u8; 6] = kani::any();
    let m = DMatrix::from_column_slice(3, 2, &a);
    let (i, j) = idx2(3, 2);
    let c = m.column(j);
    assert!(c.nrows() == 3 && c.ncols() == 1);
    assert!(c[i] == m[(i, j)] && m[(i, j)] == a[j * 3 + i]);
}

/// prelude `columns(first, n)` / `rows(first, n)`: the block with offset `first`
#[kani::proof]
#[kani::unwind(14)]
fn na_columns_rows_block_3x4() {
    let a: [u8; 12] = kani::any();
    let m = DMatrix::from_column_slice(3, 4, &a);
    let b = m.columns(1, 2);
    assert!(b.nrows() == 3 && b.ncols() == 2);
    let (i, j) = idx2(3, 2);
    assert!(b[(i, j)] == m[(i, 1 + j)]);
    let r = m.rows(1, 2);
    assert!(r.nrows() == 2 && r.ncols() == 4);
    let (p, q) = idx2(2, 4);
    assert!(r[(p, q)] == m[(1 + p, q)]);
}

/// prelude `DVector::from_vec` / `as_slice`: the elements in order
#[kani::proof]
#[kani::unwind(8)]
fn na_from_vec_as_slice_4() {
    let a: [u8; 4] = kani::any();
    let v = DVector::from_vec(a.to_vec());
    assert!(v.nrows() == 4 && v.ncols() == 1);
    let i: usize = kani::any();
    kani::assume(i < 4);
    assert!(v[i] == a[i] && v.as_slice()[i] == a[i]);
}

/// prelude `reshape_generic`: the same column-major data under the new shape
#[kani::proof]
#[kani::unwind(8)]
fn na_reshape_generic_2x3_to_6x1() {
    let a: [u8; 6] = kani::any();
    let m = DMatrix::from_column_slice(2, 3, &a);
    let v = m.clone().reshape_generic(Dyn(6), U1);
    assert!(v.nrows() == 6 && v.ncols() == 1);
    let (i, j) = idx2(2, 3);
    assert!(v[j * 2 + i] == m[(i, j)]);
}

/// prelude `ColMut::copy_from` / `set_column`: column j is overwritten, the others are untouched
#[kani::proof]
#[kani::unwind(8)]
fn na_column_mut_copy_from_3x2() {
    let a: [u8; 6] = kani::any();
    let b: [u8; 3] = kani::any();
    let mut m = DMatrix::from_column_slice(3, 2, &a);
    let v = DVector::from_column_slice(&b);
    m.column_mut(1).copy_from(&v);
    let i: usize = kani::any();
    kani::assume(i < 3);
    assert!(m[(i, 1)] == b[i] && m[(i, 0)] == a[i]);
}

/// prelude `component_mul_assign`: self[i] <- self[i] * rhs[i]
#[kani::proof]
#[kani::unwind(8)]
fn na_component_mul_assign_3() {
    let a: [u8; 3] = kani::any();
    let b: [u8; 3] = kani::any();
    kani::assume(a[0] < 8 && a[1] < 8 && a[2] < 8 && b[0] < 8 && b[1] < 8 && b[2] < 8);
    let mut m = DMatrix::from_column_slice(3, 1, &a);
    let v = DVector::from_column_slice(&b);
    m.column_mut(0).component_mul_assign(&v);
    let i: usize = kani::any();
    kani::assume(i < 3);
    assert!(m[(i, 0)] == a[i] * b[i]);
}

/// prelude `Mul` (mmul), `tr_mul` (mtr(self) * rhs), `Sub`/`Add` (elementwise) on 2 x 2 matrices with small entries
#[kani::proof]
#[kani::unwind(8)]
fn na_mul_trmul_add_2x2() {
    let a: [u8; 4] = kani::any();
    let b: [u8; 4] = kani::any();
    kani::assume(a[0] < 4 && a[1] < 4 && a[2] < 4 && a[3] < 4 && b[0] < 4 && b[1] < 4 && b[2] < 4 && b[3] < 4);
    let x = DMatrix::from_column_slice(2, 2, &a);
    let y = DMatrix::from_column_slice(2, 2, &b);
    let p = &x * &y;
    let t = x.tr_mul(&y);
    let s = &x + &y;
    let (i, j) = idx2(2, 2);
    assert!(p[(i, j)] == x[(i, 0)] * y[(0, j)] + x[(i, 1)] * y[(1, j)]);
    assert!(t[(i, j)] == x[(0, i)] * y[(0, j)] + x[(1, i)] * y[(1, j)]);
    assert!(s[(i, j)] == x[(i, j)] + y[(i, j)]);
}

/// prelude `diagonal`, `from_element`, `zeros`
#[kani::proof]
#[kani::unwind(8)]
fn na_diagonal_from_element_2x2() {
    let a: [u8; 4] = kani::any();
    let m = DMatrix::from_column_slice(2, 2, &a);
    let d = m.diagonal();
    assert!(d.nrows() == 2 && d[0] == m[(0, 0)] && d[1] == m[(1, 1)]);
    let e: u8 = kani::any();
    let f = DMatrix::from_element(2, 3, e);
    let z: DVector<u8> = DVector::zeros(3);
    let (i, j) = idx2(2, 3);
    assert!(f[(i, j)] == e && z[j] == 0);
}

/// prelude `Index<usize>` / rule X15 over matrices: the linear index is column-major, `len()` is r * c, and `iter()` visits
/// exactly the elements m[0], m[1], ..., m[len - 1] in this order
#[kani::proof]
#[kani::unwind(8)]
fn na_linear_index_iter_3x2() {
    let a: [u8; 6] = kani::any();
    let m = DMatrix::from_column_slice(3, 2, &a);
    assert!(m.len() == 6);
    let (i, j) = idx2(3, 2);
    assert!(m[j * 3 + i] == m[(i, j)]);
    let mut k = 0usize;
    for e in m.iter() {
        assert!(k < 6 && *e == m[k]);
        k += 1;
    }
    assert!(k == 6);
}
