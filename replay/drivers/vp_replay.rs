//! Replay driver: runs a named scenario against the REAL varpro code (a scratch copy of /repo's working tree)
//! and prints `REPRODUCED [<property ids>]: ...` for every property violation it observes, `NOT-REPRODUCED: ...` otherwise.
//! A hang is detected by the caller's watchdog, a panic by the exit status.
//!
//! The `*_sweep` scenarios compare the public API against independent oracles (textbook formulas evaluated in this file,
//! none of the code paths under test) on a fixed, finite set of concrete problems. They are BOUNDED checks: used (a) to
//! attach a concrete failing input to an obligation the verifier reports as failed, (b) as the bounded stand-in for a
//! function that could not be brought through the verifier (degraded): a reproduced mismatch refutes, a clean sweep
//! proves nothing.
use levenberg_marquardt::LeastSquaresProblem;
use nalgebra::{DMatrix, DVector};
use std::collections::BTreeSet;
use varpro::model::errors::ModelError;
use varpro::prelude::*;
use varpro::solvers::levmar::{LevMarProblemBuilder, LevMarSolver};

/// sum of `m` exponential decays with `p` rates (p <= m; basis j uses rate j % p) on n samples
fn model(n: usize, m: usize, p: usize) -> varpro::model::SeparableModel<f64> {
    let x = DVector::from_vec((0..n).map(|i| i as f64).collect::<Vec<_>>());
    let names: Vec<String> = (0..p).map(|i| format!("tau{}", i)).collect();
    let mut b = SeparableModelBuilder::<f64>::new(&names);
    for j in 0..m {
        let nm = names[j % p].clone();
        let s = 1.0 + j as f64;
        b = b
            .function([nm.clone()], move |x: &DVector<f64>, tau: f64| x.map(|x| (-x / (s * tau)).exp()))
            .partial_deriv(nm, move |x: &DVector<f64>, tau: f64| x.map(|x| (-x / (s * tau)).exp() * x / (s * tau * tau)));
    }
    b.independent_variable(x)
        .initial_parameters((0..p).map(|i| 1.5 + 2.0 * i as f64).collect())
        .build()
        .unwrap()
}

fn data(n: usize) -> DVector<f64> {
    DVector::from_vec((0..n).map(|i| { let x = i as f64; 2. * (-x / 1.4).exp() + 3. * (-x / 5.).exp() + 0.01 * (x * 1.7).sin() }).collect::<Vec<_>>())
}

/// findings of a sweep: one line per distinct quantity
struct Findings { seen: BTreeSet<String>, n: usize }
impl Findings {
    fn new() -> Self { Findings { seen: BTreeSet::new(), n: 0 } }
    fn report(&mut self, tags: &str, what: &str, detail: String) {
        if self.seen.insert(what.to_string()) {
            println!("REPRODUCED [{}]: {} {}", tags, what, detail);
            self.n += 1;
        }
    }
    fn finish(&self, ok: &str) { if self.n == 0 { println!("NOT-REPRODUCED: {}", ok); } }
}

/// independent oracle for the algebraic contracts (C01-C03, C06, C07, C10): textbook formulas through the normal equations,
/// evaluated on a second model instance
struct Oracle { coeff: DMatrix<f64>, resid: DVector<f64>, jac: DMatrix<f64>, yw: DMatrix<f64>, fit: DMatrix<f64> }
fn oracle(n: usize, m: usize, p: usize, alpha: &[f64], w: &Option<DVector<f64>>, y: &DMatrix<f64>) -> Oracle {
    let mut mo = model(n, m, p);
    mo.set_params(DVector::from_vec(alpha.to_vec())).unwrap();
    let wm = match w { Some(w) => DMatrix::from_diagonal(w), None => DMatrix::identity(n, n) };
    let phi = mo.eval().unwrap();
    let a = &wm * &phi;
    let yw = &wm * y;
    let ata_inv = (a.transpose() * &a).try_inverse().expect("oracle: normal matrix singular");
    let coeff = &ata_inv * a.transpose() * &yw;
    let r = &yw - &a * &coeff;
    let resid = DVector::from_iterator(n * y.ncols(), r.iter().cloned()); // column-major stacking
    let proj = &a * &ata_inv * a.transpose();
    let mut jac = DMatrix::zeros(n * y.ncols(), p);
    for k in 0..p {
        let x = &wm * mo.eval_partial_deriv(k).unwrap() * &coeff;
        let c = &proj * &x - &x;
        jac.set_column(k, &DVector::from_iterator(n * y.ncols(), c.iter().cloned()));
    }
    let fit = &phi * &coeff;
    Oracle { coeff, resid, jac, yw, fit }
}
/// relative comparison (scale = largest magnitude of the expected matrix)
fn close(a: &DMatrix<f64>, b: &DMatrix<f64>) -> Option<f64> {
    if a.shape() != b.shape() { return Some(f64::INFINITY); }
    let scale = b.amax();
    let d = (a - b).amax();
    if d.is_nan() || d > 1e-6 * scale + 1e-300 { Some(d) } else { None }
}
fn colm(v: &[f64]) -> DMatrix<f64> { DMatrix::from_column_slice(v.len(), 1, v) }
fn ydata(n: usize, s: usize) -> DMatrix<f64> {
    DMatrix::from_fn(n, s, |i, j| { let x = i as f64; (2. + j as f64) * (-x / 1.4).exp() + (3. - 0.5 * j as f64) * (-x / 5.).exp() + 0.01 * (x * 1.7 + j as f64).sin() })
}

/// a model whose derivative with respect to parameter `fail_at` reports an error (C09: failures must propagate)
struct Flaky { inner: varpro::model::SeparableModel<f64>, fail_at: usize }
impl SeparableNonlinearModel for Flaky {
    type ScalarType = f64;
    type Error = ModelError;
    fn parameter_count(&self) -> usize { self.inner.parameter_count() }
    fn base_function_count(&self) -> usize { self.inner.base_function_count() }
    fn output_len(&self) -> usize { self.inner.output_len() }
    fn set_params(&mut self, parameters: DVector<f64>) -> Result<(), Self::Error> { self.inner.set_params(parameters) }
    fn params(&self) -> DVector<f64> { self.inner.params() }
    fn eval(&self) -> Result<DMatrix<f64>, Self::Error> { self.inner.eval() }
    fn eval_partial_deriv(&self, derivative_index: usize) -> Result<DMatrix<f64>, Self::Error> {
        if derivative_index == self.fail_at { Err(ModelError::DerivativeIndexOutOfBounds { index: derivative_index }) } else { self.inner.eval_partial_deriv(derivative_index) }
    }
}

/// a model in the style the trait documentation recommends: the function matrix is computed and cached inside `set_params`
/// (and is absent before the first call), so a problem builder that never applies the initial parameters shows
struct Caching { inner: varpro::model::SeparableModel<f64>, phi: Option<DMatrix<f64>>, updates: usize }
impl SeparableNonlinearModel for Caching {
    type ScalarType = f64;
    type Error = ModelError;
    fn parameter_count(&self) -> usize { self.inner.parameter_count() }
    fn base_function_count(&self) -> usize { self.inner.base_function_count() }
    fn output_len(&self) -> usize { self.inner.output_len() }
    fn set_params(&mut self, parameters: DVector<f64>) -> Result<(), Self::Error> {
        self.inner.set_params(parameters)?;
        self.phi = Some(self.inner.eval()?);
        self.updates += 1;
        Ok(())
    }
    fn params(&self) -> DVector<f64> { self.inner.params() }
    fn eval(&self) -> Result<DMatrix<f64>, Self::Error> { self.phi.clone().ok_or(ModelError::DerivativeIndexOutOfBounds { index: usize::MAX }) }
    fn eval_partial_deriv(&self, derivative_index: usize) -> Result<DMatrix<f64>, Self::Error> { self.inner.eval_partial_deriv(derivative_index) }
}

/// a model whose partial derivatives fail for the calls with index in [from, until) (counted over the model's life): lets a
/// failure be placed after the minimisation, inside the statistics (C09: fault at ANY call index)
struct LateFail { inner: varpro::model::SeparableModel<f64>, calls: std::rc::Rc<std::cell::Cell<usize>>, from: usize, until: usize }
impl SeparableNonlinearModel for LateFail {
    type ScalarType = f64;
    type Error = ModelError;
    fn parameter_count(&self) -> usize { self.inner.parameter_count() }
    fn base_function_count(&self) -> usize { self.inner.base_function_count() }
    fn output_len(&self) -> usize { self.inner.output_len() }
    fn set_params(&mut self, parameters: DVector<f64>) -> Result<(), Self::Error> { self.inner.set_params(parameters) }
    fn params(&self) -> DVector<f64> { self.inner.params() }
    fn eval(&self) -> Result<DMatrix<f64>, Self::Error> { self.inner.eval() }
    fn eval_partial_deriv(&self, derivative_index: usize) -> Result<DMatrix<f64>, Self::Error> {
        let k = self.calls.get();
        self.calls.set(k + 1);
        if k >= self.from && k < self.until { Err(ModelError::DerivativeIndexOutOfBounds { index: derivative_index }) } else { self.inner.eval_partial_deriv(derivative_index) }
    }
}

/// a model with switchable faults (set_params / eval fail while the flag is up) that counts its set_params calls
#[derive(Default)]
struct Ctl { fail_set: std::cell::Cell<bool>, fail_eval: std::cell::Cell<bool>, sets: std::cell::Cell<usize> }
struct Faulty { inner: varpro::model::SeparableModel<f64>, ctl: std::rc::Rc<Ctl> }
impl SeparableNonlinearModel for Faulty {
    type ScalarType = f64;
    type Error = ModelError;
    fn parameter_count(&self) -> usize { self.inner.parameter_count() }
    fn base_function_count(&self) -> usize { self.inner.base_function_count() }
    fn output_len(&self) -> usize { self.inner.output_len() }
    fn set_params(&mut self, parameters: DVector<f64>) -> Result<(), Self::Error> {
        self.ctl.sets.set(self.ctl.sets.get() + 1);
        if self.ctl.fail_set.get() { return Err(ModelError::IncorrectParameterCount { expected: 0, actual: 0 }); }
        self.inner.set_params(parameters)
    }
    fn params(&self) -> DVector<f64> { self.inner.params() }
    fn eval(&self) -> Result<DMatrix<f64>, Self::Error> { if self.ctl.fail_eval.get() { Err(ModelError::DerivativeIndexOutOfBounds { index: 0 }) } else { self.inner.eval() } }
    fn eval_partial_deriv(&self, derivative_index: usize) -> Result<DMatrix<f64>, Self::Error> { self.inner.eval_partial_deriv(derivative_index) }
}

/// C04: fit() reports success truthfully, returns a coherent no-worse state, and respects the caller's evaluation budget
fn fit_cases(f: &mut Findings) {
    use levenberg_marquardt::LevenbergMarquardt;
    let (n, m, p) = (16usize, 2usize, 2usize);
    for s in 1..=2usize {
        // budgets 100 and 1; a common weight 0.5 for every row; tolerances of 0 (the optimizer then ends with NoImprovementPossible,
        // which is NOT a successful termination)
        for &(pat, wk, zero_tol) in [(100usize, 0usize, false), (1, 0, false), (100, 1, false), (100, 0, true)].iter() {
            let y = ydata(n, s);
            let w: Option<DVector<f64>> = if wk == 1 { Some(DVector::from_element(n, 0.5)) } else { None };
            let ctl = std::rc::Rc::new(Ctl::default());
            let mut b = LevMarProblemBuilder::mrhs(Faulty { inner: model(n, m, p), ctl: ctl.clone() }).observations(y.clone());
            if let Some(w) = &w { b = b.weights(w.clone()); }
            let pr = b.build().unwrap();
            let obj0 = pr.residuals().map(|r| 0.5 * r.norm_squared()).unwrap_or(f64::INFINITY);
            let before = ctl.sets.get();
            let lm = if zero_tol { LevenbergMarquardt::new().with_ftol(0.).with_xtol(0.).with_gtol(0.) } else { LevenbergMarquardt::new() };
            let r = LevMarSolver::with_solver(lm.with_patience(pat)).fit(pr);
            let evals = ctl.sets.get() - before;
            let cfg = format!("for N={} M={} P={} S={} patience={} weights={} tolerances={}", n, m, p, s, pat, if wk == 1 { "all 0.5" } else { "none" }, if zero_tol { "0" } else { "default" });
            let (fr, ok) = match r { Ok(fr) => (fr, true), Err(fr) => (fr, false) };
            if ok != fr.minimization_report.termination.was_successful() { f.report("C04", "fit() returns Ok / Err contrary to the optimizer's termination reason", format!("({:?}, returned {}) {}", fr.minimization_report.termination, if ok { "Ok" } else { "Err" }, cfg)); }
            // the optimizer's budget is patience * (P + 1) residual evaluations; every evaluation applies the parameters once
            // (two extra applications are tolerated: the optimizer may restore the accepted point at the end)
            if evals > pat * (p + 1) + 2 { f.report("C04", "fit() exceeds the evaluation budget of the supplied optimizer configuration", format!("({} parameter applications, budget {}) {}", evals, pat * (p + 1), cfg)); }
            if ok {
                let alpha = fr.nonlinear_parameters();
                let o = oracle(n, m, p, alpha.as_slice(), &w, &y);
                match (fr.problem.residuals(), fr.problem.linear_coefficients()) {
                    (Some(res), Some(c)) => {
                        if close(&colm(res.as_slice()), &colm(o.resid.as_slice())).is_some() || close(&c.into_owned(), &o.coeff).is_some() { f.report("C04 C02", "a successful fit result exposes residuals / coefficients that do not belong to its nonlinear parameters", cfg.clone()); }
                        let obj = 0.5 * res.norm_squared();
                        if (fr.minimization_report.objective_function - obj).abs() > 1e-9 * obj.max(1e-300) { f.report("C04", "the reported objective is not half the squared norm of the final residuals", format!("({:e} vs {:e}) {}", fr.minimization_report.objective_function, obj, cfg)); }
                        if obj > obj0 * (1.0 + 1e-12) { f.report("C04", "a successful fit ends at a larger objective than the initial guess", format!("({:e} > {:e}) {}", obj, obj0, cfg)); }
                    }
                    _ => f.report("C04 C09", "a successful fit result exposes no residuals / coefficients", cfg.clone()),
                }
            }
        }
    }
}

/// C09 / C10: failing parameter applications and evaluations leave nothing behind, and later updates are history free
fn fault_cases(f: &mut Findings) {
    let (n, m, p) = (8usize, 2usize, 2usize);
    let (a1, a2) = (vec![1.3, 4.0], vec![2.1, 6.5]);
    for which in 0..2 {
        let what = ["set_params of the model fails", "eval of the model fails"][which];
        let ctl = std::rc::Rc::new(Ctl::default());
        let mut pr = LevMarProblemBuilder::new(Faulty { inner: model(n, m, p), ctl: ctl.clone() }).observations(data(n)).build().unwrap();
        pr.set_params(&DVector::from_vec(a1.clone()));
        if which == 0 { ctl.fail_set.set(true) } else { ctl.fail_eval.set(true) }
        pr.set_params(&DVector::from_vec(a2.clone()));
        if pr.residuals().is_some() || pr.linear_coefficients().is_some() || pr.jacobian().is_some() { f.report("C09 C10", "residuals / coefficients / Jacobian are still exposed after a failed update", format!("({})", what)); }
        ctl.fail_set.set(false); ctl.fail_eval.set(false);
        pr.set_params(&DVector::from_vec(a2.clone()));
        let mut fresh = LevMarProblemBuilder::new(model(n, m, p)).observations(data(n)).build().unwrap();
        fresh.set_params(&DVector::from_vec(a2.clone()));
        if pr.residuals().is_none() || pr.residuals() != fresh.residuals() || pr.jacobian() != fresh.jacobian() || pr.linear_coefficients().map(|c| c.into_owned()) != fresh.linear_coefficients().map(|c| c.into_owned()) {
            f.report("C10 C09", "the state after a failed and a repeated update differs from a fresh problem at the same parameters", format!("({})", what));
        }
        // a fit whose model starts failing returns Err, without panicking
        let ctl = std::rc::Rc::new(Ctl::default());
        let pr = LevMarProblemBuilder::new(Faulty { inner: model(n, m, p), ctl: ctl.clone() }).observations(data(n)).build().unwrap();
        if which == 0 { ctl.fail_set.set(true) } else { ctl.fail_eval.set(true) }
        match std::panic::catch_unwind(std::panic::AssertUnwindSafe(|| LevMarSolver::default().fit(pr).is_ok())) {
            Err(_) => f.report("C09 C08", "fit() panics when the model fails", format!("({})", what)),
            Ok(true) => f.report("C09 C04", "fit() returns Ok although every model call failed", format!("({})", what)),
            Ok(false) => {}
        }
    }
}

/// C10 at a boundary of float equality: +0.0 and -0.0 compare equal but are different parameter vectors (1/tau differs in sign);
/// NaN never compares equal. The state after such an update must still be that of a fresh problem at the same parameters.
fn signed_zero_cases(f: &mut Findings) {
    let n = 8usize;
    let mk = || {
        let mo = SeparableModelBuilder::<f64>::new(["t0", "t1"])
            .function(["t0"], |x: &DVector<f64>, tau: f64| x.map(|x| (-x / tau).exp())).partial_deriv("t0", |x: &DVector<f64>, tau: f64| x.map(|x| (-x / tau).exp() * x / (tau * tau)))
            .function(["t1"], |x: &DVector<f64>, tau: f64| x.map(|x| (-x / tau).exp())).partial_deriv("t1", |x: &DVector<f64>, tau: f64| x.map(|x| (-x / tau).exp() * x / (tau * tau)))
            .independent_variable(xs(n)).initial_parameters(vec![1.5, 3.5]).build().unwrap();
        LevMarProblemBuilder::new(mo).observations(data(n)).build().unwrap()
    };
    for (first, second) in [(vec![0.0, 3.0], vec![-0.0, 3.0]), (vec![-0.0, 3.0], vec![0.0, 3.0]), (vec![2.0, 0.0], vec![2.0, -0.0]), (vec![2.0, 3.0], vec![2.0, 3.0])] {
        let mut hist = mk();
        hist.set_params(&DVector::from_vec(first.clone()));
        hist.set_params(&DVector::from_vec(second.clone()));
        let mut fresh = mk();
        fresh.set_params(&DVector::from_vec(second.clone()));
        // bitwise comparison (a NaN derivative at tau = 0 is the same NaN in both)
        let bits = |v: Option<Vec<f64>>| v.map(|v| v.iter().map(|x| x.to_bits()).collect::<Vec<u64>>());
        let same = bits(hist.residuals().map(|r| r.as_slice().to_vec())) == bits(fresh.residuals().map(|r| r.as_slice().to_vec()))
            && bits(hist.jacobian().map(|r| r.as_slice().to_vec())) == bits(fresh.jacobian().map(|r| r.as_slice().to_vec()))
            && bits(hist.linear_coefficients().map(|c| c.as_slice().to_vec())) == bits(fresh.linear_coefficients().map(|c| c.as_slice().to_vec()))
            && bits(Some(hist.params().as_slice().to_vec())) == bits(Some(fresh.params().as_slice().to_vec()));
        if !same { f.report("C10", "the state after two updates differs from a fresh problem at the same parameters (signed zero)", format!("after {:?} then {:?}: residuals {} vs fresh {}", first, second, if hist.residuals().is_some() { "Some" } else { "None" }, if fresh.residuals().is_some() { "Some" } else { "None" })); }
    }
}

/// C18: the problem builder accepts exactly consistent inputs, names the violated requirement, starts at the model's parameters
fn builder_cases(f: &mut Findings) {
    // the error type is not nameable from outside the crate: it is judged by the variant name of its Debug form
    let (n, m, p) = (8usize, 2usize, 2usize);
    let w = DVector::from_fn(n, |i, _| 0.5 + 0.25 * i as f64);
    let mut expect = |name: &str, r: Result<(), String>, want: &[&str]| {
        let got = match &r { Ok(()) => "Ok".to_string(), Err(e) => e.split(|c: char| !c.is_alphanumeric()).next().unwrap_or("").to_string() };
        if !want.contains(&got.as_str()) { f.report("C18", "the problem builder mis-judges a specification:", format!("{} -> {:?} (expected {:?})", name, r, want)); }
    };
    fn d<T, E: std::fmt::Debug>(r: Result<T, E>) -> Result<(), String> { r.map(|_| ()).map_err(|e| format!("{:?}", e)) }
    expect("no observations", d(LevMarProblemBuilder::new(model(n, m, p)).build()), &["YDataMissing"]);
    expect("no observations but weights", d(LevMarProblemBuilder::new(model(n, m, p)).weights(w.clone()).build()), &["YDataMissing"]);
    expect("observations one row short", d(LevMarProblemBuilder::new(model(n, m, p)).observations(data(n - 1)).build()), &["InvalidLengthOfData"]);
    expect("observations one row long (mrhs)", d(LevMarProblemBuilder::mrhs(model(n, m, p)).observations(ydata(n + 1, 2)).build()), &["InvalidLengthOfData"]);
    expect("weights one element short", d(LevMarProblemBuilder::new(model(n, m, p)).observations(data(n)).weights(DVector::from_element(n - 1, 1.0)).build()), &["InvalidLengthOfWeights"]);
    expect("weights one element long, given before the observations", d(LevMarProblemBuilder::new(model(n, m, p)).weights(DVector::from_element(n + 1, 1.0)).observations(data(n)).build()), &["InvalidLengthOfWeights"]);
    expect("empty observations", d(LevMarProblemBuilder::new(model(n, m, p)).observations(DVector::zeros(0)).build()), &["ZeroLengthVector", "InvalidLengthOfData"]);
    expect("consistent inputs", d(LevMarProblemBuilder::new(model(n, m, p)).observations(data(n)).weights(w.clone()).build()), &["Ok"]);
    expect("consistent inputs (mrhs, 3 columns)", d(LevMarProblemBuilder::mrhs(model(n, m, p)).observations(ydata(n, 3)).build()), &["Ok"]);
    // order of builder calls, and the sign of the threshold, do not matter
    let a = LevMarProblemBuilder::new(model(n, m, p)).observations(data(n)).weights(w.clone()).epsilon(1e-3).build().unwrap();
    let b = LevMarProblemBuilder::new(model(n, m, p)).epsilon(-1e-3).weights(w.clone()).observations(data(n)).build().unwrap();
    if a.residuals() != b.residuals() || a.jacobian() != b.jacobian() || a.params() != b.params() { f.report("C18", "the order of builder calls (or the sign of the threshold) changes the built problem", String::new()); }
    if a.params().as_slice() != [1.5, 3.5] { f.report("C18", "the built problem does not start at the model's initial parameters", format!("{:?}", a.params().as_slice())); }
}

fn algebra_sweep() {
    let mut f = Findings::new();
    for &(n, m, p) in [(8usize, 2usize, 2usize), (9, 3, 2)].iter() {
        for wk in 0..5 {
            let w: Option<DVector<f64>> = match wk { 0 => None, 1 => Some(DVector::from_fn(n, |i, _| 1.0 / (1.0 + i as f64))), 2 => Some(DVector::from_fn(n, |i, _| if i == 1 || i == 4 { 0.0 } else { 0.5 + 0.25 * i as f64 })),
                3 => Some(DVector::from_element(n, 0.5)) /* one common weight (constant sigma): still a row scaling by 0.5 */, _ => Some(DVector::from_element(n, 1.0)) /* explicit unit weights */ };
            // many right-hand sides once (S = 70: block-wise code paths, index arithmetic in S)
            for s in (1..=3usize).chain(if wk == 1 && n == 8 { Some(70usize) } else { None }) {
                let y = ydata(n, s);
                let (a1, a2) = (vec![1.3, 4.0], vec![2.1, 6.5]);
                let cfg = format!("for N={} M={} P={} S={} weights={} alpha={:?}", n, m, p, s, ["none", "1/(1+i)", "zeros at rows 1,4", "all 0.5", "all 1.0"][wk], a2);
                let wt = if wk == 0 { "" } else { " C06" };
                let mr = if s > 1 { " C07" } else { "" };
                // multiple right-hand-side flavour
                let mut b = LevMarProblemBuilder::mrhs(model(n, m, p)).observations(y.clone());
                if let Some(w) = &w { b = b.weights(w.clone()); }
                let mut pr = b.build().unwrap();
                pr.set_params(&DVector::from_vec(a1.clone()));
                pr.set_params(&DVector::from_vec(a2.clone()));
                let o = oracle(n, m, p, &a2, &w, &y);
                if let Some(d) = close(&pr.weighted_data().into_owned(), &o.yw) { f.report(&format!("C02 C18{}{}", wt, mr), "weighted_data() differs from W*Y", format!("(max abs diff {:e}) {}", d, cfg)); }
                match pr.linear_coefficients() { Some(c) => if let Some(d) = close(&c.into_owned(), &o.coeff) { f.report(&format!("C01 C02{}{}", wt, mr), "linear_coefficients() differ from the least-squares optimum", format!("(max abs diff {:e}) {}", d, cfg)); }, None => f.report("C01 C02 C09", "linear_coefficients() == None although the model evaluates", cfg.clone()) }
                match pr.residuals() { Some(r) => if let Some(d) = close(&colm(r.as_slice()), &colm(o.resid.as_slice())) { f.report(&format!("C02 C01{}{}", wt, mr), "residuals() differ from vec(W(Y - Phi C))", format!("(max abs diff {:e}) {}", d, cfg)); }, None => f.report("C02 C09", "residuals() == None although the model evaluates", cfg.clone()) }
                match pr.jacobian() { Some(j) => if let Some(d) = close(&j, &o.jac) { f.report(&format!("C03{}{}", wt, mr), "jacobian() differs from the Kaufman columns -(I - P) W D_k C", format!("(max abs diff {:e}) {}", d, cfg)); }, None => f.report("C03 C09", "jacobian() == None although every derivative evaluates", cfg.clone()) }
                // a fresh problem at the same parameters must agree exactly (no history)
                let mut b2 = LevMarProblemBuilder::mrhs(model(n, m, p)).observations(y.clone());
                if let Some(w) = &w { b2 = b2.weights(w.clone()); }
                let mut fresh = b2.build().unwrap();
                fresh.set_params(&DVector::from_vec(a2.clone()));
                if fresh.residuals() != pr.residuals() || fresh.jacobian() != pr.jacobian() || pr.jacobian() != pr.jacobian() { f.report("C10", "state after two updates differs from a fresh problem at the same parameters", cfg.clone()); }
                // single right-hand-side flavour
                if s == 1 {
                    let mut b = LevMarProblemBuilder::new(model(n, m, p)).observations(y.column(0).into_owned());
                    if let Some(w) = &w { b = b.weights(w.clone()); }
                    let mut pr = b.build().unwrap();
                    pr.set_params(&DVector::from_vec(a2.clone()));
                    match pr.linear_coefficients() { Some(c) => if let Some(d) = close(&colm(c.into_owned().as_slice()), &o.coeff) { f.report(&format!("C01 C07{}", wt), "linear_coefficients() [single rhs] differ from the least-squares optimum", format!("(max abs diff {:e}) {}", d, cfg)); }, None => f.report("C01 C09", "linear_coefficients() == None [single rhs]", cfg.clone()) }
                    match pr.residuals() { Some(r) => if let Some(d) = close(&colm(r.as_slice()), &colm(o.resid.as_slice())) { f.report(&format!("C02 C07{}", wt), "residuals() [single rhs] differ from vec(W(y - Phi c))", format!("(max abs diff {:e}) {}", d, cfg)); }, None => f.report("C02 C09", "residuals() == None [single rhs]", cfg.clone()) }
                    match pr.jacobian() { Some(j) => if let Some(d) = close(&j, &o.jac) { f.report(&format!("C03 C07{}", wt), "jacobian() [single rhs] differs from the Kaufman columns", format!("(max abs diff {:e}) {}", d, cfg)); }, None => f.report("C03 C09", "jacobian() == None [single rhs]", cfg.clone()) }
                }
            }
        }
    }
    // best_fit() of a converged weighted fit (a zero weight included) is Phi(alpha) * C
    for s in 1..=2usize {
        let (n, m, p) = (24usize, 2usize, 2usize);
        let y = ydata(n, s);
        let w = DVector::from_fn(n, |i, _| if i == 3 || i == 7 { 0.0 } else { 0.5 + 0.1 * (i % 5) as f64 });
        let res = LevMarSolver::default().fit(LevMarProblemBuilder::mrhs(model(n, m, p)).observations(y.clone()).weights(w.clone()).build().unwrap());
        if let Ok(fr) = res {
            let alpha = fr.nonlinear_parameters();
            let o = oracle(n, m, p, alpha.as_slice(), &Some(w.clone()), &y);
            match fr.best_fit() { Some(bf) => if let Some(d) = close(&bf, &o.fit) { f.report("C02 C06", "best_fit() differs from Phi(alpha) * C", format!("(max abs diff {:e}) for a converged fit with N={} S={} and zero weights at rows 3,7", d, n, s)); }, None => f.report("C02 C04", "best_fit() == None after a successful fit", String::new()) }
        }
    }
    // C01, rank-deficient and thresholded cases: the coefficients are the minimum-norm minimiser, and singular values of W*Phi at
    // or below the configured threshold count as zero. Oracles: (a) closed form for the dependent columns f, 2f:
    // c = (1,2)^T (u.Wy)/(5 u.u), u = W f; (b) the truncated pseudo-inverse of W*Phi formed in this file
    {
        let n = 12usize;
        let x = DVector::from_fn(n, |i, _| 10. * i as f64 / (n - 1) as f64);
        let ed = |x: &DVector<f64>, tau: f64| x.map(|x| (-x / tau).exp());
        let edd = |x: &DVector<f64>, tau: f64| x.map(|x| (-x / tau).exp() * x / (tau * tau));
        for wk in 0..2 {
            let w = DVector::from_fn(n, |i, _| if wk == 0 { 1.0 } else { 0.5 + 0.25 * (i % 3) as f64 });
            let wm = DMatrix::from_diagonal(&w);
            let y = DVector::from_fn(n, |i, _| 3. * (-x[i] / 2.).exp() + 0.3 + 0.01 * (1.7 * x[i]).sin());
            let wt = if wk == 0 { "" } else { " C06" };
            // (a) f and 2f
            let dep = || SeparableModelBuilder::<f64>::new(&["tau"]).initial_parameters(vec![2.0]).independent_variable(x.clone())
                .function(&["tau"], ed).partial_deriv("tau", edd)
                .function(&["tau"], move |x: &DVector<f64>, tau: f64| 2. * ed(x, tau)).partial_deriv("tau", move |x: &DVector<f64>, tau: f64| 2. * edd(x, tau))
                .build().unwrap();
            let pr = LevMarProblemBuilder::new(dep()).observations(y.clone()).weights(w.clone()).build().unwrap();
            let u = &wm * ed(&x, 2.0);
            let k = u.dot(&(&wm * &y)) / (5. * u.dot(&u));
            let expect = DMatrix::from_column_slice(2, 1, &[k, 2. * k]);
            match pr.linear_coefficients() {
                Some(c) => if let Some(d) = close(&colm(c.into_owned().as_slice()), &expect) { f.report(&format!("C01{}", wt), "linear_coefficients() of a rank-deficient problem are not the minimum-norm minimiser", format!("(max abs diff {:e}) for basis functions f, 2f: expected {:?}, got {:?}", d, expect.as_slice(), c.as_slice())); },
                None => f.report("C01 C09", "linear_coefficients() == None for a rank-deficient problem", String::new()),
            }
            // (b) a tiny column and a threshold far above its singular value
            let eps = 1e-3;
            let tiny = || SeparableModelBuilder::<f64>::new(&["tau"]).initial_parameters(vec![2.0]).independent_variable(x.clone())
                .function(&["tau"], ed).partial_deriv("tau", edd)
                .invariant_function(|x: &DVector<f64>| 1e-6 * x)
                .build().unwrap();
            let pr = LevMarProblemBuilder::new(tiny()).observations(y.clone()).weights(w.clone()).epsilon(eps).build().unwrap();
            let a = &wm * tiny().eval().unwrap();
            let expect = a.clone().pseudo_inverse(eps).unwrap() * (&wm * &y);
            match pr.linear_coefficients() {
                Some(c) => if let Some(d) = close(&colm(c.into_owned().as_slice()), &colm(expect.as_slice())) { f.report(&format!("C01{}", wt), "linear_coefficients() ignore the singular-value threshold of W*Phi", format!("(max abs diff {:e}) for basis functions f, 1e-6*x and epsilon {:e}: expected {:?}, got {:?}", d, eps, expect.as_slice(), c.as_slice())); },
                None => f.report("C01 C09", "linear_coefficients() == None for a thresholded problem", String::new()),
            }
        }
    }
    // C10: no uninitialised memory. With y = 0 the coefficients are exactly zero, so every Jacobian column is exactly zero; the
    // heap is poisoned with blocks of the Jacobian's size before each query so that a column that is never written shows
    {
        let (n, m, p) = (8usize, 2usize, 2usize);
        let pr = LevMarProblemBuilder::new(model(n, m, p)).observations(DVector::zeros(n)).build().unwrap();
        for round in 0..4 {
            { let poison: Vec<Vec<f64>> = (0..6).map(|k| vec![f64::from_bits(0x7ff8_0000_dead_0000 + k as u64); n * p]).collect(); std::hint::black_box(&poison); }
            match pr.jacobian() {
                Some(j) => if j.iter().any(|v| *v != 0.0) { f.report("C10 C03", "jacobian() contains values that were never computed (zero observations: every column is exactly zero)", format!("in query #{}: {:?}", round + 1, j.as_slice().iter().take(4).collect::<Vec<_>>())); },
                None => f.report("C03 C09", "jacobian() == None for zero observations", String::new()),
            }
        }
    }
    // C18: a built problem has applied the model's initial parameters once and already exposes residuals and coefficients
    {
        let (n, m, p) = (8usize, 2usize, 2usize);
        let pr = LevMarProblemBuilder::new(Caching { inner: model(n, m, p), phi: None, updates: 0 }).observations(data(n)).build().unwrap();
        if pr.model().updates == 0 || pr.residuals().is_none() || pr.linear_coefficients().is_none() {
            f.report("C18 C02", "build() did not apply the model's initial parameters: the built problem exposes no residuals / coefficients", format!("for a model that computes its function matrix inside set_params (set_params calls during build: {})", pr.model().updates));
        }
        if pr.params() != pr.model().params() || pr.params().as_slice() != [1.5, 3.5] { f.report("C18", "the built problem does not report the model's initial parameters", String::new()); }
    }
    // C09: a derivative that fails at an index other than the last must make jacobian() None
    for fail_at in 0..2usize {
        let (n, m, p) = (8usize, 2usize, 2usize);
        let pr = LevMarProblemBuilder::new(Flaky { inner: model(n, m, p), fail_at }).observations(data(n)).build().unwrap();
        if pr.jacobian().is_some() { f.report("C09 C03 C10", "jacobian() is Some although eval_partial_deriv reported an error (a column of the returned matrix is not a computed value)", format!("for the derivative with index {} of 2", fail_at)); }
    }
    // C18 (threshold): a negative threshold acts like its absolute value (tiny column truncated as with +1e-3)
    {
        let n = 12usize;
        let x = DVector::from_fn(n, |i, _| 10. * i as f64 / (n - 1) as f64);
        let tiny = || SeparableModelBuilder::<f64>::new(&["tau"]).initial_parameters(vec![2.0]).independent_variable(x.clone())
            .function(&["tau"], |x: &DVector<f64>, tau: f64| x.map(|x| (-x / tau).exp())).partial_deriv("tau", |x: &DVector<f64>, tau: f64| x.map(|x| (-x / tau).exp() * x / (tau * tau)))
            .invariant_function(|x: &DVector<f64>| 1e-6 * x).build().unwrap();
        let y = DVector::from_fn(n, |i, _| 3. * (-x[i] / 2.).exp() + 0.3);
        let pos = LevMarProblemBuilder::new(tiny()).observations(y.clone()).epsilon(1e-3).build().unwrap();
        let neg = LevMarProblemBuilder::new(tiny()).observations(y.clone()).epsilon(-1e-3).build().unwrap();
        let dflt = LevMarProblemBuilder::new(tiny()).observations(y.clone()).build().unwrap();
        let c = |pr: &varpro::solvers::levmar::LevMarProblem<varpro::model::SeparableModel<f64>, false, false>| pr.linear_coefficients().map(|c| c.into_owned());
        if c(&pos) != c(&neg) { f.report("C18", "a negative singular-value threshold does not act like its absolute value", format!("{:?} vs {:?}", c(&pos), c(&neg))); }
        if c(&pos) == c(&dflt) { f.report("C01", "a supplied singular-value threshold has no effect (same coefficients as with the default)", String::new()); }
    }
    // C07 with a supplied threshold: column s of a 3-column problem equals the single-column problem for every threshold on a
    // geometric grid around the small singular value of the basis matrix (the truncation must not depend on the number of columns)
    {
        let n = 12usize;
        let x = DVector::from_fn(n, |i, _| 10. * i as f64 / (n - 1) as f64);
        let tiny = || SeparableModelBuilder::<f64>::new(&["tau"]).initial_parameters(vec![2.0]).independent_variable(x.clone())
            .function(&["tau"], |x: &DVector<f64>, tau: f64| x.map(|x| (-x / tau).exp())).partial_deriv("tau", |x: &DVector<f64>, tau: f64| x.map(|x| (-x / tau).exp() * x / (tau * tau)))
            .invariant_function(|x: &DVector<f64>| 1e-6 * x).build().unwrap();
        let sv = tiny().eval().unwrap().svd(false, false).singular_values;
        let s_small = sv.min();
        let y = DMatrix::from_fn(n, 3, |i, j| (3. - j as f64) * (-x[i] / 2.).exp() + 0.3 * (j as f64 + 1.) + 0.01 * (1.7 * x[i] + j as f64).sin());
        'grid: for k in -24i32..=24 {
            let eps = s_small * 1.4f64.powi(k);
            let multi = LevMarProblemBuilder::mrhs(tiny()).observations(y.clone()).epsilon(eps).build().unwrap();
            let cm = match multi.linear_coefficients() { Some(c) => c.into_owned(), None => continue };
            for s in 0..3 {
                let single = LevMarProblemBuilder::new(tiny()).observations(y.column(s).into_owned()).epsilon(eps).build().unwrap();
                let cs = match single.linear_coefficients() { Some(c) => c.into_owned(), None => continue };
                if let Some(d) = close(&colm(cm.column(s).as_slice()), &colm(cs.as_slice())) {
                    f.report("C07", "column s of a multiple right-hand-side problem differs from the single right-hand-side problem for that column", format!("(max abs diff {:e}) column {} of 3, threshold {:e} = {:.3} x the smallest singular value of the basis matrix", d, s, eps, 1.4f64.powi(k)));
                    break 'grid;
                }
            }
        }
    }
    fit_cases(&mut f);
    signed_zero_cases(&mut f);
    fault_cases(&mut f);
    builder_cases(&mut f);
    f.finish("the algebra sweep (18 configurations, rank-deficient and thresholded cases, best_fit, fits under two budgets, failing models, the problem-builder matrix) agrees with the independent oracle");
}

fn stats_sweep() {
    let mut f = Findings::new();
    // shapes: two basis functions sharing nothing; ONE basis function (M = 1: code paths specialised on a single column)
    for &(n, m, p, wks) in [(30usize, 2usize, 2usize, 5usize), (30, 1, 1, 2)].iter() {
    for wk in 0..wks {
        // 0: no weights, 1: varied, 2: two exact zeros, 3: data and weights at a tiny scale, 4: one common weight 0.5
        let scale = if wk == 3 { 1e-18 } else { 1.0 };
        let y = ydata(n, 1).column(0).into_owned() * scale;
        let w: Option<DVector<f64>> = match wk { 0 => None, 1 | 3 => Some(DVector::from_fn(n, |i, _| 0.5 + 0.1 * (i % 5) as f64)), 4 => Some(DVector::from_element(n, 0.5)), _ => Some(DVector::from_fn(n, |i, _| if i == 4 || i == 11 { 0.0 } else { 0.5 + 0.1 * (i % 5) as f64 })) };
        let mut b = LevMarProblemBuilder::new(model(n, m, p)).observations(y.clone());
        if let Some(w) = &w { b = b.weights(w.clone()); }
        let (fit, st) = match LevMarSolver::default().fit_with_statistics(b.build().unwrap()) { Ok(x) => x, Err(_) => continue /* an Err from the statistics (e.g. MatrixInversion) is allowed by C12: nothing to compare */ };
        let alpha = fit.nonlinear_parameters();
        let c = fit.linear_coefficients().unwrap().into_owned();
        let mut mo = model(n, m, p);
        mo.set_params(alpha.clone()).unwrap();
        let phi = mo.eval().unwrap();
        let wm = match &w { Some(w) => DMatrix::from_diagonal(w), None => DMatrix::identity(n, n) };
        let mut j = DMatrix::zeros(n, m + p);
        j.view_mut((0, 0), (n, m)).copy_from(&phi);
        for k in 0..p { j.set_column(m + k, &(mo.eval_partial_deriv(k).unwrap() * &c)); }
        let h = &wm * &j;
        let r = &wm * (&y - &phi * &c);
        let dof = (n - m - p) as f64;
        let chi2 = r.norm_squared() / dof;
        // scale the columns for the oracle's own inversion only (exact rescaling afterwards): keeps the oracle well conditioned
        let cn: Vec<f64> = (0..m + p).map(|k| h.column(k).norm()).collect();
        let hs = DMatrix::from_fn(n, m + p, |i, k| h[(i, k)] / cn[k]);
        let inv_s = (hs.transpose() * &hs).try_inverse().unwrap();
        let cov = DMatrix::from_fn(m + p, m + p, |a, b| inv_s[(a, b)] / (cn[a] * cn[b]) * chi2);
        let cfg = format!("for N={} M={} P={} weights={}", n, m, p, ["none", "0.5+0.1*(i%5)", "0.5+0.1*(i%5) with exact zeros at rows 4,11", "0.5+0.1*(i%5), data scaled by 1e-18", "all 0.5"][wk]);
        let wt = if wk == 0 { "" } else { " C06" };
        if (st.reduced_chi2() - chi2).abs() > 1e-6 * chi2 { f.report(&format!("C12{}", wt), "reduced_chi2() differs from |W(y - Phi c)|^2 / (N - M - P)", format!("({:e} vs {:e}) {}", st.reduced_chi2(), chi2, cfg)); }
        if let Some(d) = close(&st.covariance_matrix().clone(), &cov) { f.report(&format!("C13{}", wt), "covariance_matrix() differs from chi2 (H^T H)^-1", format!("(max abs diff {:e}) {}", d, cfg)); }
        if close(&colm(st.weighted_residuals().as_slice()), &colm(r.as_slice())).is_some() { f.report(&format!("C12{}", wt), "weighted_residuals() differ from W(y - Phi c)", cfg.clone()); }
        // C12: the reported weighted residuals are the final residuals of the fit itself
        match fit.problem.residuals() { Some(fr) => if close(&colm(st.weighted_residuals().as_slice()), &colm(fr.as_slice())).is_some() { f.report("C12 C02", "weighted_residuals() of the statistics differ from the final residuals() of the fitted problem", cfg.clone()); }, None => f.report("C12 C04", "residuals() of a successfully fitted problem are absent", cfg.clone()) }
        let d = cov.diagonal();
        if close(&colm(st.linear_coefficients_variance().as_slice()), &colm(&d.as_slice()[0..m])).is_some() { f.report("C13", "linear_coefficients_variance() is not the leading diagonal segment", cfg.clone()); }
        if close(&colm(st.nonlinear_parameters_variance().as_slice()), &colm(&d.as_slice()[m..m + p])).is_some() { f.report("C13", "nonlinear_parameters_variance() is not the trailing diagonal segment", cfg.clone()); }
        let corr = DMatrix::from_fn(m + p, m + p, |a, b| cov[(a, b)] / (cov[(a, a)] * cov[(b, b)]).sqrt());
        if close(&st.calculate_correlation_matrix(), &corr).is_some() { f.report("C13", "calculate_correlation_matrix() differs from c_ij / sqrt(c_ii c_jj)", cfg.clone()); }
        if (st.regression_standard_error() - chi2.sqrt()).abs() > 1e-6 * chi2.sqrt() { f.report(&format!("C12{}", wt), "regression_standard_error() is not the square root of the reduced chi2", cfg.clone()); }
        let cm = st.covariance_matrix();
        let cs = cm.amax();
        if (0..m + p).any(|a| cm[(a, a)] < 0.0 || (0..m + p).any(|b| (cm[(a, b)] - cm[(b, a)]).abs() > 1e-9 * cs)) { f.report("C13", "covariance_matrix() is not symmetric with a non-negative diagonal", cfg.clone()); }
        let cr = st.calculate_correlation_matrix();
        if (0..m + p).any(|a| (cr[(a, a)] - 1.0).abs() > 1e-9 || (0..m + p).any(|b| cr[(a, b)].abs() > 1.0 + 1e-9)) { f.report("C13", "the correlation matrix does not have a unit diagonal and entries in [-1, 1]", cfg.clone()); }
        let (b5, b9, b99) = (st.confidence_band_radius(0.5), st.confidence_band_radius(0.9), st.confidence_band_radius(0.99));
        if (0..n).any(|i| !(b5[i] >= 0.0 && b5[i] <= b9[i] && b9[i] <= b99[i] && b99[i].is_finite())) { f.report(&format!("C14{}", wt), "confidence_band_radius is not finite, non-negative and non-decreasing in the probability (0.5, 0.9, 0.99)", cfg.clone()); }
        if wk == 0 {
            let hook = std::panic::take_hook();
            std::panic::set_hook(Box::new(|_| {}));
            for bad in [0.0, 1.0, -0.25, 1.5, f64::NAN, f64::INFINITY] {
                if std::panic::catch_unwind(std::panic::AssertUnwindSafe(|| st.confidence_band_radius(bad))).is_ok() { f.report("C14", "confidence_band_radius accepts a probability outside (0, 1)", format!("(p = {})", bad)); }
            }
            std::panic::set_hook(hook);
        }
        // the band radius is t * sqrt(j_i^T Cov j_i) with rows of the UNWEIGHTED J: the ratio must be the same for every sample
        let band = st.confidence_band_radius(0.9);
        let sig: Vec<f64> = (0..n).map(|i| (j.row(i) * &cov * j.row(i).transpose())[(0, 0)].sqrt()).collect();
        let t0 = band[0] / sig[0];
        if band.len() != n || (0..n).any(|i| !band[i].is_finite() || (band[i] / sig[i] - t0).abs() > 1e-5 * t0.abs()) || !(t0 > 1.6 && t0 < 1.8) {
            f.report(&format!("C14{}", wt), "confidence_band_radius(0.9) is not t(0.95; N-M-P) * sqrt(j_i^T Cov j_i) for every sample (t = 1.7056 for 26, 1.7011 for 28 degrees of freedom)", cfg.clone());
        }
    }
    }
    // C12 / C04: a minimisation that does not end successfully (tolerances of 0: NoImprovementPossible) gives Err, never statistics
    {
        use levenberg_marquardt::LevenbergMarquardt;
        let (n, m, p) = (30usize, 2usize, 2usize);
        let y = ydata(n, 1).column(0).into_owned();
        let mk = || LevMarProblemBuilder::new(model(n, m, p)).observations(y.clone()).build().unwrap();
        let lm = || LevenbergMarquardt::new().with_ftol(0.).with_xtol(0.).with_gtol(0.);
        let reason = match LevMarSolver::with_solver(lm()).fit(mk()) { Ok(fr) => fr.minimization_report.termination, Err(fr) => fr.minimization_report.termination };
        if !reason.was_successful() && LevMarSolver::with_solver(lm()).fit_with_statistics(mk()).is_ok() {
            f.report("C12 C04", "fit_with_statistics returns Ok although the minimisation did not end successfully", format!("(termination {:?} with all tolerances 0)", reason));
        }
    }
    // C09: a derivative that fails AFTER the minimisation (inside the statistics) makes fit_with_statistics return Err, no panic
    {
        let (n, m, p) = (30usize, 2usize, 2usize);
        let y = ydata(n, 1).column(0).into_owned();
        let calls = std::rc::Rc::new(std::cell::Cell::new(0usize));
        let mk = |from: usize, until: usize| { calls.set(0); LevMarProblemBuilder::new(LateFail { inner: model(n, m, p), calls: calls.clone(), from, until }).observations(y.clone()).build().unwrap() };
        if LevMarSolver::default().fit(mk(usize::MAX, usize::MAX)).is_ok() {
            let t = calls.get(); // derivative calls made by construction + minimisation
            for (from, until, what) in [(t, usize::MAX, "every derivative call after the minimisation fails"), (t, t + 1, "only the first derivative call of the statistics fails"), (t + 1, t + 2, "only the second derivative call of the statistics fails")] {
                let pr = mk(from, until);
                let r = std::panic::catch_unwind(std::panic::AssertUnwindSafe(|| LevMarSolver::default().fit_with_statistics(pr).is_ok()));
                let made = calls.get();
                match r {
                    Err(_) => f.report("C09 C08", "fit_with_statistics panics when a derivative fails during the statistics", format!("({}; {} derivative calls before the statistics)", what, t)),
                    Ok(true) if made > from => f.report("C09 C12", "fit_with_statistics returns Ok although the model reported an error during the statistics", format!("({}; {} derivative calls before the statistics)", what, t)),
                    _ => {}
                }
            }
        }
    }
    f.finish("statistics agree with their defining formulas (5 weight / scale cases; a one-basis-function model); late derivative failures give Err");
}

fn xs(n: usize) -> DVector<f64> { DVector::from_vec((1..=n).map(|i| i as f64).collect::<Vec<_>>()) }

fn model_sweep() {
    let mut f = Findings::new();
    // ---- C16: routing by name and derivative placement. g(x, p, q, r, s) = 1000 p + 100 q + 10 r + s (times x)
    let g = |x: &DVector<f64>, p: f64, q: f64, r: f64, s: f64| x.map(|x| x * (1000. * p + 100. * q + 10. * r + s));
    let vals = [1.0, 2.0, 3.0, 4.0, 5.0];
    let names = ["a", "b", "c", "d", "e"];
    for order in [["a", "c", "b", "d"], ["d", "b", "c", "a"], ["b", "c", "d", "e"], ["e", "a", "d", "b"]].iter() {
        let idx: Vec<usize> = order.iter().map(|s| names.iter().position(|n| n == s).unwrap()).collect();
        let mut b = SeparableModelBuilder::<f64>::new(names).invariant_function(|x: &DVector<f64>| x.map(|_| 1.0)).function(*order, g);
        for (pos, nm) in order.iter().enumerate() {
            let wgt = [1000., 100., 10., 1.][pos];
            b = b.partial_deriv(*nm, move |x: &DVector<f64>, p: f64, q: f64, r: f64, s: f64| x.map(|x| x * (1e6 * wgt + 1000. * p + 100. * q + 10. * r + s)));
        }
        // every parameter must be used: a second function over all five
        b = b.function(names, |x: &DVector<f64>, a: f64, b: f64, c: f64, d: f64, e: f64| x.map(|x| x + a + b + c + d + e));
        for nm in names.iter() { b = b.partial_deriv(*nm, |x: &DVector<f64>, _a: f64, _b: f64, _c: f64, _d: f64, _e: f64| x.map(|_| 1.0)); }
        let mo = match b.independent_variable(xs(3)).initial_parameters(vals.to_vec()).build() { Ok(m) => m, Err(e) => { f.report("C15", "a valid specification is rejected", format!("({:?}) for a function over {:?}", e, order)); continue; } };
        let want = 1000. * vals[idx[0]] + 100. * vals[idx[1]] + 10. * vals[idx[2]] + vals[idx[3]];
        match mo.eval() {
            Ok(phi) => {
                if phi.ncols() != 3 || (0..3).any(|i| phi[(i, 0)] != 1.0 || phi[(i, 1)] != (i as f64 + 1.) * want) { f.report("C16", "eval(): a function does not receive exactly its named parameters in its own order", format!("for a function over {:?} in a model over {:?}: column {:?}, expected x * {}", order, names, phi.column(1).as_slice(), want)); }
            }
            Err(e) => f.report("C16 C17", "eval() of a valid model fails", format!("{:?}", e)),
        }
        for k in 0..5 {
            match mo.eval_partial_deriv(k) {
                Ok(d) => {
                    // a derivative receives the SAME named parameters, in the function's own declaration order, as the function
                    let wgt = match idx.iter().position(|&i| i == k) { Some(pos) => 1e6 * [1000., 100., 10., 1.][pos] + want, None => 0.0 };
                    if (0..3).any(|i| d[(i, 0)] != 0.0 || d[(i, 1)] != (i as f64 + 1.) * wgt || d[(i, 2)] != 1.0) { f.report("C16", "eval_partial_deriv(k): a derivative is not placed under the model index of its parameter name, does not receive its function's named parameters in declaration order, or a zero column is not zero", format!("for k={} and a function over {:?}", k, order)); }
                }
                Err(e) => f.report("C16 C17", "eval_partial_deriv of a valid model fails", format!("{:?}", e)),
            }
        }
        if mo.params().as_slice() != vals { f.report("C16", "params() does not return the parameters in model order", String::new()); }
    }
    // ---- C16 at scale: 130 parameters, function j takes (p_j, p_{(j+65) % 130}); d/dp_k is non-zero exactly in columns k and (k+65)%130
    {
        let np = 130usize;
        let names: Vec<String> = (0..np).map(|i| format!("p{}", i)).collect();
        let mut b = SeparableModelBuilder::<f64>::new(&names);
        for j in 0..np {
            let (n1, n2) = (names[j].clone(), names[(j + 65) % np].clone());
            let (c1, c2) = (1.0 + j as f64, 1000.0 + j as f64);
            b = b.function([n1.clone(), n2.clone()], move |x: &DVector<f64>, a: f64, q: f64| x.map(|x| x * (c1 * a + c2 * q)))
                .partial_deriv(n2, move |x: &DVector<f64>, _a: f64, _q: f64| x.map(|x| x * c2))
                .partial_deriv(n1, move |x: &DVector<f64>, _a: f64, _q: f64| x.map(|x| x * c1));
        }
        let vals: Vec<f64> = (0..np).map(|i| 0.5 + i as f64).collect();
        match b.independent_variable(xs(2)).initial_parameters(vals.clone()).build() {
            Err(e) => f.report("C15", "a valid specification with 130 parameters is rejected", format!("({:?})", e)),
            Ok(mo) => {
                match mo.eval() {
                    Ok(phi) => if (0..np).any(|j| phi[(1, j)] != 2.0 * ((1.0 + j as f64) * vals[j] + (1000.0 + j as f64) * vals[(j + 65) % np])) { f.report("C16", "eval(): a function does not receive exactly its named parameters (130-parameter model)", String::new()); },
                    Err(e) => f.report("C16 C17", "eval() of a valid 130-parameter model fails", format!("{:?}", e)),
                }
                for k in 0..np {
                    match mo.eval_partial_deriv(k) {
                        Ok(d) => {
                            let bad = (0..np).find(|&j| { let want = if j == k { 1.0 + j as f64 } else if (j + 65) % np == k { 1000.0 + j as f64 } else { 0.0 }; d[(0, j)] != want || d[(1, j)] != 2.0 * want });
                            if let Some(j) = bad { f.report("C16", "eval_partial_deriv(k): a derivative is not placed under the model index of its parameter name (130-parameter model)", format!("first at k={} column {}: got {:?}", k, j, (d[(0, j)], d[(1, j)]))); }
                        }
                        Err(e) => f.report("C16 C17", "eval_partial_deriv of a valid 130-parameter model fails", format!("k={} {:?}", k, e)),
                    }
                }
            }
        }
    }
    // ---- C15: acceptance matrix of the model builder (one defect per sequence)
    let f1 = |x: &DVector<f64>, a: f64| x.map(|x| x * a);
    let f2 = |x: &DVector<f64>, a: f64, b: f64| x.map(|x| x * a + b);
    let ok = |b: SeparableModelBuilder<f64>| b.independent_variable(xs(3)).initial_parameters(vec![1., 2.]).build().is_ok();
    let base = || SeparableModelBuilder::<f64>::new(["a", "b"]);
    let valid = || base().function(["a", "b"], f2).partial_deriv("a", f2).partial_deriv("b", f2);
    let mut expect = |name: &str, accepted: bool, should: bool| { if accepted != should { f.report("C15", if should { "a valid call sequence is rejected:" } else { "an invalid call sequence is accepted:" }, name.to_string()); } };
    expect("function(a,b) + both derivatives + x + initial guess", ok(valid()), true);
    expect("derivatives supplied in the other order", ok(base().function(["a", "b"], f2).partial_deriv("b", f2).partial_deriv("a", f2)), true);
    expect("duplicate model parameter names", ok(SeparableModelBuilder::<f64>::new(["a", "a"]).function(["a"], f1).partial_deriv("a", f1)), false);
    expect("comma in a model parameter name", ok(SeparableModelBuilder::<f64>::new(["a,b", "b"]).function(["b"], f1).partial_deriv("b", f1)), false);
    expect("missing derivative for b", ok(base().function(["a", "b"], f2).partial_deriv("a", f2)), false);
    expect("derivative for a given twice", ok(base().function(["a", "b"], f2).partial_deriv("a", f2).partial_deriv("a", f2).partial_deriv("b", f2)), false);
    expect("derivative for a name the function does not take", ok(base().function(["a"], f1).partial_deriv("a", f1).partial_deriv("b", f1).function(["b"], f1).partial_deriv("b", f1)), false);
    expect("derivative with fewer arguments than its function", ok(base().function(["a", "b"], f2).partial_deriv("a", f2).partial_deriv("b", f1)), false);
    expect("function whose argument count differs from its parameter list", ok(base().function(["a", "b"], f1).partial_deriv("a", f1).partial_deriv("b", f1)), false);
    expect("function parameter that is not a model parameter", ok(base().function(["a", "z"], f2).partial_deriv("a", f2).partial_deriv("z", f2)), false);
    expect("duplicate function parameters", ok(base().function(["a", "a"], f2).partial_deriv("a", f2)), false);
    expect("model parameter b used by no function", ok(base().function(["a"], f1).partial_deriv("a", f1)), false);
    expect("model parameter b used by no function although two functions over a bring two derivatives", ok(base().function(["a"], f1).partial_deriv("a", f1).function(["a"], f1).partial_deriv("a", f1)), false);
    expect("model parameter c used by no function although four derivatives were given for a and b", SeparableModelBuilder::<f64>::new(["a", "b", "c"]).function(["a", "b"], f2).partial_deriv("a", f2).partial_deriv("b", f2).function(["b", "a"], f2).partial_deriv("a", f2).partial_deriv("b", f2).independent_variable(xs(3)).initial_parameters(vec![1., 2., 3.]).build().is_ok(), false);
    expect("every model parameter used, parameters shared between two functions", SeparableModelBuilder::<f64>::new(["a", "b", "c"]).function(["a", "b"], f2).partial_deriv("a", f2).partial_deriv("b", f2).function(["c", "a"], f2).partial_deriv("a", f2).partial_deriv("c", f2).independent_variable(xs(3)).initial_parameters(vec![1., 2., 3.]).build().is_ok(), true);
    expect("partial_deriv directly after invariant_function", ok(valid().invariant_function(|x: &DVector<f64>| x.clone()).partial_deriv("a", f2)), false);
    expect("partial_deriv after independent_variable (pending function incomplete)", base().function(["a", "b"], f2).partial_deriv("a", f2).independent_variable(xs(3)).partial_deriv("b", f2).initial_parameters(vec![1., 2.]).build().is_ok(), false);
    expect("partial_deriv after initial_parameters (pending function incomplete)", base().function(["a", "b"], f2).partial_deriv("a", f2).initial_parameters(vec![1., 2.]).partial_deriv("b", f2).independent_variable(xs(3)).build().is_ok(), false);
    expect("stray partial_deriv after independent_variable (function already complete)", valid().independent_variable(xs(3)).partial_deriv("a", f2).initial_parameters(vec![1., 2.]).build().is_ok(), false);
    expect("independent_variable and initial_parameters between two complete functions", base().function(["a"], f1).partial_deriv("a", f1).independent_variable(xs(3)).initial_parameters(vec![1., 2.]).function(["b"], f1).partial_deriv("b", f1).build().is_ok(), true);
    expect("comma in the last model parameter name", ok(SeparableModelBuilder::<f64>::new(["a", "b,c"]).function(["a", "b,c"], f2).partial_deriv("a", f2).partial_deriv("b,c", f2)), false);
    expect("comma in the only model parameter name", SeparableModelBuilder::<f64>::new(["a,b"]).function(["a,b"], f1).partial_deriv("a,b", f1).independent_variable(xs(3)).initial_parameters(vec![1.]).build().is_ok(), false);
    expect("comma in the last parameter name of a function", ok(base().function(["a", "b,"], f2).partial_deriv("a", f2).partial_deriv("b,", f2)), false);
    expect("no basis function at all", ok(base()), false);
    expect("missing independent variable", valid().initial_parameters(vec![1., 2.]).build().is_ok(), false);
    expect("missing initial guess", valid().independent_variable(xs(3)).build().is_ok(), false);
    expect("initial guess of the wrong length", valid().independent_variable(xs(3)).initial_parameters(vec![1.]).build().is_ok(), false);
    expect("wrong-length initial guess followed by a correct one (errors are sticky)", valid().independent_variable(xs(3)).initial_parameters(vec![1.]).initial_parameters(vec![1., 2.]).build().is_ok(), false);
    expect("missing derivative, then a second complete function (errors are sticky)", ok(base().function(["a"], f1).function(["a", "b"], f2).partial_deriv("a", f2).partial_deriv("b", f2)), false);
    // ---- C17: misuse of a built model is an error value and leaves the state intact
    let mut mo = valid().independent_variable(xs(3)).initial_parameters(vec![1., 2.]).build().unwrap();
    let before = mo.eval().unwrap();
    if mo.set_params(DVector::from_vec(vec![9.0])).is_ok() { f.report("C17", "set_params with a wrong-length vector is accepted", String::new()); }
    if mo.params().as_slice() != [1., 2.] || mo.eval().ok() != Some(before) { f.report("C17", "a rejected parameter vector changed the parameters or later evaluations", String::new()); }
    if mo.eval_partial_deriv(2).is_ok() { f.report("C17", "eval_partial_deriv with an out-of-range index is accepted", String::new()); }
    let bad = SeparableModelBuilder::<f64>::new(["a"]).invariant_function(|_x: &DVector<f64>| DVector::from_vec(vec![1., 2.])).function(["a"], f1).partial_deriv("a", f1).independent_variable(xs(3)).initial_parameters(vec![1.]).build().unwrap();
    for round in 0..2 { if bad.eval().is_ok() { f.report("C17", "eval() accepts a basis function whose output has the wrong length", format!("(call #{})", round + 1)); } }
    let badd = SeparableModelBuilder::<f64>::new(["a"]).function(["a"], f1).partial_deriv("a", |_x: &DVector<f64>, _a: f64| DVector::from_vec(vec![1.])).independent_variable(xs(3)).initial_parameters(vec![1.]).build().unwrap();
    for round in 0..2 { if badd.eval_partial_deriv(0).is_ok() { f.report("C17", "eval_partial_deriv() accepts a derivative whose output has the wrong length", format!("(call #{})", round + 1)); } }
    // outputs that are LONGER than the independent variable (a zip-style copy would silently truncate them)
    let long = SeparableModelBuilder::<f64>::new(["a"]).invariant_function(|_x: &DVector<f64>| DVector::from_vec(vec![1., 2., 3., 4., 5.])).function(["a"], f1).partial_deriv("a", f1).independent_variable(xs(3)).initial_parameters(vec![1.]).build().unwrap();
    for round in 0..2 { if long.eval().is_ok() { f.report("C17", "eval() accepts a basis function whose output is longer than the independent variable", format!("(5 values for 3 samples, call #{})", round + 1)); } }
    let longd = SeparableModelBuilder::<f64>::new(["a"]).function(["a"], f1).partial_deriv("a", |_x: &DVector<f64>, _a: f64| DVector::from_vec(vec![1., 2., 3., 4.])).independent_variable(xs(3)).initial_parameters(vec![1.]).build().unwrap();
    for round in 0..2 { if longd.eval_partial_deriv(0).is_ok() { f.report("C17", "eval_partial_deriv() accepts a derivative whose output is longer than the independent variable", format!("(4 values for 3 samples, call #{})", round + 1)); } }
    match longd.eval() { Ok(m) => if m.nrows() != 3 || m.ncols() != 1 { f.report("C17", "eval() of a valid function returns a matrix that is not samples x basis functions", format!("{:?}", m.shape())); }, Err(e) => f.report("C17", "eval() fails although only the derivative is defective", format!("{:?}", e)) }
    f.finish("routing (4 parameter orders, a 130-parameter model), the builder acceptance matrix (29 sequences) and the misuse cases behave as specified");
}

fn main() {
    let a: Vec<String> = std::env::args().collect();
    let scenario = a.get(1).map(|s| s.as_str()).unwrap_or("");
    match scenario {
        // C09: a rejected parameter vector must not leave residuals computed for earlier parameters
        "stale_after_failed_set_params" => {
            let mut problem = LevMarProblemBuilder::new(model(10, 2, 2)).observations(data(10)).build().unwrap();
            let before = problem.params();
            problem.set_params(&DVector::from_vec(vec![3.0])); // wrong length: the model rejects it
            let after = problem.params();
            match problem.residuals() {
                Some(r) if after == before => println!("REPRODUCED [C09 C10 C02]: set_params(&[3.0]) was rejected by the 2-parameter model (params still {:?}) but residuals() == Some(len {}) computed for the earlier parameters", after.as_slice(), r.len()),
                Some(_) => println!("NOT-REPRODUCED: residuals present and parameters changed"),
                None => println!("NOT-REPRODUCED: residuals() == None after the rejected update"),
            }
        }
        // C08: non-finite basis function values must not hang or panic
        "nonfinite_phi" => {
            let v = match a.get(2).map(|s| s.as_str()) { Some("nan") => f64::NAN, _ => -0.001 };
            let mut problem = LevMarProblemBuilder::new(model(10, 2, 2)).observations(data(10)).build().unwrap();
            problem.set_params(&DVector::from_vec(vec![v, 2.0])); // exp(x/0.001) overflows to +inf ; or NaN
            println!("NOT-REPRODUCED: set_params returned; residuals = {:?}", problem.residuals().map(|r| r.len()));
        }
        // C08: a non-finite DERIVATIVE at a point where the fit ends successfully must not hang or panic in the statistics
        "nonfinite_derivative_stats" => {
            let n = 10;
            let mut mo = model(n, 2, 2);
            mo.set_params(DVector::from_vec(vec![1e-200, 3.0])).unwrap(); // exp(-x/tau) finite, x/(tau*tau) overflows: the derivative is NaN / inf
            let x0 = DVector::from_vec((0..n).map(|i| 1.0 + i as f64).collect::<Vec<_>>());
            let names = ["tau0", "tau1"];
            let mo2 = SeparableModelBuilder::<f64>::new(names)
                .function(["tau0"], |x: &DVector<f64>, tau: f64| x.map(|x| (-x / tau).exp())).partial_deriv("tau0", |x: &DVector<f64>, tau: f64| x.map(|x| (-x / tau).exp() * x / (tau * tau)))
                .function(["tau1"], |x: &DVector<f64>, tau: f64| x.map(|x| (-x / tau).exp())).partial_deriv("tau1", |x: &DVector<f64>, tau: f64| x.map(|x| (-x / tau).exp() * x / (tau * tau)))
                .independent_variable(x0).initial_parameters(vec![1e-200, 3.0]).build().unwrap();
            let _ = mo;
            let problem = LevMarProblemBuilder::new(mo2).observations(DVector::zeros(n)).build().unwrap();
            let r = LevMarSolver::default().fit_with_statistics(problem);
            println!("NOT-REPRODUCED: fit_with_statistics returned ({})", if r.is_ok() { "Ok" } else { "Err" });
        }
        // C12: N <= M + P must give Err in every build profile
        "underdetermined" => {
            let n: usize = a[2].parse().unwrap();
            let m: usize = a[3].parse().unwrap();
            let p: usize = a[4].parse().unwrap();
            let problem = LevMarProblemBuilder::new(model(n, m, p)).observations(data(n)).build().unwrap();
            match LevMarSolver::default().fit_with_statistics(problem) {
                Ok(_) => println!("REPRODUCED [C12]: fit_with_statistics returned Ok although N={} <= M+P={}", n, m + p),
                Err(f) => println!("NOT-REPRODUCED: Err({:?})", f.minimization_report.termination),
            }
        }
        "algebra_sweep" => algebra_sweep(),
        "stats_sweep" => stats_sweep(),
        "model_sweep" => model_sweep(),
        _ => println!("NOT-REPRODUCED: unknown scenario"),
    }
}
