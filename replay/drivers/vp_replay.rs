//! Replay driver: runs a named scenario against the REAL varpro code (a scratch copy of /repo's working tree)
//! and prints `REPRODUCED: ...` when the property violation is observed, `NOT-REPRODUCED: ...` otherwise.
//! A hang is detected by the caller's watchdog, a panic by the exit status.
use levenberg_marquardt::LeastSquaresProblem;
use nalgebra::DVector;
use varpro::prelude::*;
use varpro::solvers::levmar::{LevMarProblemBuilder, LevMarSolver};

/// sum of `m` exponential decays with `p` rates (p <= m; basis j uses rate j % p) on n samples
fn model(n: usize, m: usize, p: usize) -> varpro::model::SeparableModel<f64> {
    let x = DVector::from_vec((0..n).map(|i| i as f64).collect::<Vec<_>>());
    let names: Vec<String> = (0..p).map(|i| format!("tau{}", i)).collect();
    let mut b = SeparableModelBuilder::<f64>::new(&names);
    for j in 0..m {
        let nm = names[j % p].clone();
        let s = 1.0 + j as f64;
        b = b
            .function([nm.clone()], move |x: &DVector<f64>, tau: f64| x.map(|x| (-x / (s * tau)).exp()))
            .partial_deriv(nm, move |x: &DVector<f64>, tau: f64| x.map(|x| (-x / (s * tau)).exp() * x / (s * tau * tau)));
    }
    b.independent_variable(x)
        .initial_parameters((0..p).map(|i| 1.5 + 2.0 * i as f64).collect())
        .build()
        .unwrap()
}

fn data(n: usize) -> DVector<f64> {
    DVector::from_vec((0..n).map(|i| { let x = i as f64; 2. * (-x / 1.4).exp() + 3. * (-x / 5.).exp() + 0.01 * (x * 1.7).sin() }).collect::<Vec<_>>())
}

fn main() {
    let a: Vec<String> = std::env::args().collect();
    let scenario = a.get(1).map(|s| s.as_str()).unwrap_or("");
    match scenario {
        // C09: a rejected parameter vector must not leave residuals computed for earlier parameters
        "stale_after_failed_set_params" => {
            let mut problem = LevMarProblemBuilder::new(model(10, 2, 2)).observations(data(10)).build().unwrap();
            let before = problem.params();
            problem.set_params(&DVector::from_vec(vec![3.0])); // wrong length: the model rejects it
            let after = problem.params();
            match problem.residuals() {
                Some(r) if after == before => println!("REPRODUCED: set_params(&[3.0]) was rejected by the 2-parameter model (params still {:?}) but residuals() == Some(len {}) computed for the earlier parameters", after.as_slice(), r.len()),
                Some(_) => println!("NOT-REPRODUCED: residuals present and parameters changed"),
                None => println!("NOT-REPRODUCED: residuals() == None after the rejected update"),
            }
        }
        // C08: non-finite basis function values must not hang or panic
        "nonfinite_phi" => {
            let v = match a.get(2).map(|s| s.as_str()) { Some("nan") => f64::NAN, _ => -0.001 };
            let mut problem = LevMarProblemBuilder::new(model(10, 2, 2)).observations(data(10)).build().unwrap();
            problem.set_params(&DVector::from_vec(vec![v, 2.0])); // exp(x/0.001) overflows to +inf ; or NaN
            println!("NOT-REPRODUCED: set_params returned; residuals = {:?}", problem.residuals().map(|r| r.len()));
        }
        // C12: N <= M + P must give Err in every build profile
        "underdetermined" => {
            let n: usize = a[2].parse().unwrap();
            let m: usize = a[3].parse().unwrap();
            let p: usize = a[4].parse().unwrap();
            let problem = LevMarProblemBuilder::new(model(n, m, p)).observations(data(n)).build().unwrap();
            match LevMarSolver::default().fit_with_statistics(problem) {
                Ok(_) => println!("REPRODUCED: fit_with_statistics returned Ok although N={} <= M+P={}", n, m + p),
                Err(f) => println!("NOT-REPRODUCED: Err({:?})", f.minimization_report.termination),
            }
        }
        _ => println!("NOT-REPRODUCED: unknown scenario"),
    }
}
