//! Replay driver: runs a named scenario against the REAL varpro code (a scratch copy of /repo's working tree)
//! and prints `REPRODUCED: ...` when the property violation is observed, `NOT-REPRODUCED: ...` otherwise.
//! A hang is detected by the caller's watchdog, a panic by the exit status.
use levenberg_marquardt::LeastSquaresProblem;
use nalgebra::{DMatrix, DVector};
use varpro::prelude::*;
use varpro::solvers::levmar::{LevMarProblemBuilder, LevMarSolver};

/// sum of `m` exponential decays with `p` rates (p <= m; basis j uses rate j % p) on n samples
fn model(n: usize, m: usize, p: usize) -> varpro::model::SeparableModel<f64> {
    let x = DVector::from_vec((0..n).map(|i| i as f64).collect::<Vec<_>>());
    let names: Vec<String> = (0..p).map(|i| format!("tau{}", i)).collect();
    let mut b = SeparableModelBuilder::<f64>::new(&names);
    for j in 0..m {
        let nm = names[j % p].clone();
        let s = 1.0 + j as f64;
        b = b
            .function([nm.clone()], move |x: &DVector<f64>, tau: f64| x.map(|x| (-x / (s * tau)).exp()))
            .partial_deriv(nm, move |x: &DVector<f64>, tau: f64| x.map(|x| (-x / (s * tau)).exp() * x / (s * tau * tau)));
    }
    b.independent_variable(x)
        .initial_parameters((0..p).map(|i| 1.5 + 2.0 * i as f64).collect())
        .build()
        .unwrap()
}

fn data(n: usize) -> DVector<f64> {
    DVector::from_vec((0..n).map(|i| { let x = i as f64; 2. * (-x / 1.4).exp() + 3. * (-x / 5.).exp() + 0.01 * (x * 1.7).sin() }).collect::<Vec<_>>())
}

/// independent oracle for the algebraic contracts (C01-C03, C06, C07, C10): textbook formulas through the normal equations,
/// evaluated on a second model instance; none of the code paths under test is used
struct Oracle { coeff: DMatrix<f64>, resid: DVector<f64>, jac: DMatrix<f64>, yw: DMatrix<f64> }
fn oracle(n: usize, m: usize, p: usize, alpha: &[f64], w: &Option<DVector<f64>>, y: &DMatrix<f64>) -> Oracle {
    let mut mo = model(n, m, p);
    mo.set_params(DVector::from_vec(alpha.to_vec())).unwrap();
    let wm = match w { Some(w) => DMatrix::from_diagonal(w), None => DMatrix::identity(n, n) };
    let a = &wm * mo.eval().unwrap();
    let yw = &wm * y;
    let ata_inv = (a.transpose() * &a).try_inverse().expect("oracle: normal matrix singular");
    let coeff = &ata_inv * a.transpose() * &yw;
    let r = &yw - &a * &coeff;
    let resid = DVector::from_iterator(n * y.ncols(), r.iter().cloned()); // column-major stacking
    let proj = &a * &ata_inv * a.transpose();
    let mut jac = DMatrix::zeros(n * y.ncols(), p);
    for k in 0..p {
        let x = &wm * mo.eval_partial_deriv(k).unwrap() * &coeff;
        let c = &proj * &x - &x;
        jac.set_column(k, &DVector::from_iterator(n * y.ncols(), c.iter().cloned()));
    }
    Oracle { coeff, resid, jac, yw }
}
fn close(a: &DMatrix<f64>, b: &DMatrix<f64>) -> Option<f64> {
    if a.shape() != b.shape() { return Some(f64::INFINITY); }
    let scale = 1.0 + b.amax();
    let d = (a - b).amax();
    if d.is_nan() || d > 1e-7 * scale { Some(d) } else { None }
}
fn ydata(n: usize, s: usize) -> DMatrix<f64> {
    DMatrix::from_fn(n, s, |i, j| { let x = i as f64; (2. + j as f64) * (-x / 1.4).exp() + (3. - 0.5 * j as f64) * (-x / 5.).exp() + 0.01 * (x * 1.7 + j as f64).sin() })
}

fn main() {
    let a: Vec<String> = std::env::args().collect();
    let scenario = a.get(1).map(|s| s.as_str()).unwrap_or("");
    match scenario {
        // C09: a rejected parameter vector must not leave residuals computed for earlier parameters
        "stale_after_failed_set_params" => {
            let mut problem = LevMarProblemBuilder::new(model(10, 2, 2)).observations(data(10)).build().unwrap();
            let before = problem.params();
            problem.set_params(&DVector::from_vec(vec![3.0])); // wrong length: the model rejects it
            let after = problem.params();
            match problem.residuals() {
                Some(r) if after == before => println!("REPRODUCED: set_params(&[3.0]) was rejected by the 2-parameter model (params still {:?}) but residuals() == Some(len {}) computed for the earlier parameters", after.as_slice(), r.len()),
                Some(_) => println!("NOT-REPRODUCED: residuals present and parameters changed"),
                None => println!("NOT-REPRODUCED: residuals() == None after the rejected update"),
            }
        }
        // C08: non-finite basis function values must not hang or panic
        "nonfinite_phi" => {
            let v = match a.get(2).map(|s| s.as_str()) { Some("nan") => f64::NAN, _ => -0.001 };
            let mut problem = LevMarProblemBuilder::new(model(10, 2, 2)).observations(data(10)).build().unwrap();
            problem.set_params(&DVector::from_vec(vec![v, 2.0])); // exp(x/0.001) overflows to +inf ; or NaN
            println!("NOT-REPRODUCED: set_params returned; residuals = {:?}", problem.residuals().map(|r| r.len()));
        }
        // C12: N <= M + P must give Err in every build profile
        "underdetermined" => {
            let n: usize = a[2].parse().unwrap();
            let m: usize = a[3].parse().unwrap();
            let p: usize = a[4].parse().unwrap();
            let problem = LevMarProblemBuilder::new(model(n, m, p)).observations(data(n)).build().unwrap();
            match LevMarSolver::default().fit_with_statistics(problem) {
                Ok(_) => println!("REPRODUCED: fit_with_statistics returned Ok although N={} <= M+P={}", n, m + p),
                Err(f) => println!("NOT-REPRODUCED: Err({:?})", f.minimization_report.termination),
            }
        }
        // C01-C03, C06, C07, C10: coefficients, residuals, Jacobian and weighted data against the independent oracle, for
        // single and multiple right-hand sides, with and without (partly zero) weights, after one and after two updates
        "algebra_sweep" => {
            let mut found = false;
            for &(n, m, p) in [(8usize, 2usize, 2usize), (9, 3, 2)].iter() {
                for wk in 0..3 {
                    let w: Option<DVector<f64>> = match wk { 0 => None, 1 => Some(DVector::from_fn(n, |i, _| 1.0 / (1.0 + i as f64))), _ => Some(DVector::from_fn(n, |i, _| if i == 1 || i == 4 { 0.0 } else { 0.5 + 0.25 * i as f64 })) };
                    for s in 1..=3usize {
                        let y = ydata(n, s);
                        let (a1, a2) = (vec![1.3, 4.0], vec![2.1, 6.5]);
                        let cfg = format!("N={} M={} P={} S={} weights={} alpha={:?}", n, m, p, s, ["none", "1/(1+i)", "zeros at rows 1,4"][wk], a2);
                        let mut report = |what: &str, d: f64| { if !found { println!("REPRODUCED: {} differs from the independent oracle (max abs diff {:e}) for {}", what, d, cfg); } found = true; };
                        // multiple right-hand-side flavour
                        let mut b = LevMarProblemBuilder::mrhs(model(n, m, p)).observations(y.clone());
                        if let Some(w) = &w { b = b.weights(w.clone()); }
                        let mut pr = b.build().unwrap();
                        pr.set_params(&DVector::from_vec(a1.clone()));
                        pr.set_params(&DVector::from_vec(a2.clone()));
                        let o = oracle(n, m, p, &a2, &w, &y);
                        if let Some(d) = close(&pr.weighted_data().into_owned(), &o.yw) { report("weighted_data()", d); }
                        match pr.linear_coefficients() { Some(c) => if let Some(d) = close(&c.into_owned(), &o.coeff) { report("linear_coefficients()", d); }, None => report("linear_coefficients() == None", f64::NAN) }
                        match pr.residuals() { Some(r) => if let Some(d) = close(&DMatrix::from_column_slice(r.len(), 1, r.as_slice()), &DMatrix::from_column_slice(o.resid.len(), 1, o.resid.as_slice())) { report("residuals()", d); }, None => report("residuals() == None", f64::NAN) }
                        match pr.jacobian() { Some(j) => if let Some(d) = close(&j, &o.jac) { report("jacobian()", d); }, None => report("jacobian() == None", f64::NAN) }
                        // a fresh problem at the same parameters must agree exactly (no history)
                        let mut b2 = LevMarProblemBuilder::mrhs(model(n, m, p)).observations(y.clone());
                        if let Some(w) = &w { b2 = b2.weights(w.clone()); }
                        let mut fresh = b2.build().unwrap();
                        fresh.set_params(&DVector::from_vec(a2.clone()));
                        if fresh.residuals() != pr.residuals() || fresh.jacobian() != pr.jacobian() { report("state after two updates vs a fresh problem at the same parameters", f64::NAN); }
                        // single right-hand-side flavour
                        if s == 1 {
                            let mut b = LevMarProblemBuilder::new(model(n, m, p)).observations(y.column(0).into_owned());
                            if let Some(w) = &w { b = b.weights(w.clone()); }
                            let mut pr = b.build().unwrap();
                            pr.set_params(&DVector::from_vec(a2.clone()));
                            match pr.linear_coefficients() { Some(c) => if let Some(d) = close(&DMatrix::from_column_slice(c.len(), 1, c.into_owned().as_slice()), &o.coeff) { report("linear_coefficients() [single rhs]", d); }, None => report("linear_coefficients() == None [single rhs]", f64::NAN) }
                            match pr.residuals() { Some(r) => if let Some(d) = close(&DMatrix::from_column_slice(r.len(), 1, r.as_slice()), &DMatrix::from_column_slice(o.resid.len(), 1, o.resid.as_slice())) { report("residuals() [single rhs]", d); }, None => report("residuals() == None [single rhs]", f64::NAN) }
                            match pr.jacobian() { Some(j) => if let Some(d) = close(&j, &o.jac) { report("jacobian() [single rhs]", d); }, None => report("jacobian() == None [single rhs]", f64::NAN) }
                        }
                    }
                }
            }
            if !found { println!("NOT-REPRODUCED: 18 configurations agree with the independent oracle"); }
        }
        // C12-C14: statistics of a converged weighted fit against their defining formulas (recomputed from the public model API)
        "stats_sweep" => {
            let (n, m, p) = (30usize, 2usize, 2usize);
            let y = ydata(n, 1).column(0).into_owned();
            let mut found = false;
            for wk in 0..2 {
                let w: Option<DVector<f64>> = if wk == 0 { None } else { Some(DVector::from_fn(n, |i, _| 0.5 + 0.1 * (i % 5) as f64)) };
                let mut b = LevMarProblemBuilder::new(model(n, m, p)).observations(y.clone());
                if let Some(w) = &w { b = b.weights(w.clone()); }
                let (fit, st) = match LevMarSolver::default().fit_with_statistics(b.build().unwrap()) { Ok(x) => x, Err(_) => { println!("NOT-REPRODUCED: fit did not converge"); return; } };
                let alpha = fit.nonlinear_parameters();
                let c = fit.linear_coefficients().unwrap().into_owned();
                let mut mo = model(n, m, p);
                mo.set_params(alpha.clone()).unwrap();
                let phi = mo.eval().unwrap();
                let wm = match &w { Some(w) => DMatrix::from_diagonal(w), None => DMatrix::identity(n, n) };
                let mut j = DMatrix::zeros(n, m + p);
                j.view_mut((0, 0), (n, m)).copy_from(&phi);
                for k in 0..p { j.set_column(m + k, &(mo.eval_partial_deriv(k).unwrap() * &c)); }
                let h = &wm * &j;
                let r = &wm * (&y - &phi * &c);
                let dof = (n - m - p) as f64;
                let chi2 = r.norm_squared() / dof;
                let cov = (h.transpose() * &h).try_inverse().unwrap() * chi2;
                let cfg = format!("N={} M={} P={} weights={}", n, m, p, if wk == 0 { "none" } else { "0.5+0.1*(i%5)" });
                let mut report = |what: &str| { if !found { println!("REPRODUCED: {} differs from its defining formula for {}", what, cfg); } found = true; };
                if (st.reduced_chi2() - chi2).abs() > 1e-6 * (1.0 + chi2) { report("reduced_chi2()"); }
                if close(&st.covariance_matrix().clone(), &cov).is_some() { report("covariance_matrix()"); }
                if close(&DMatrix::from_column_slice(n, 1, st.weighted_residuals().as_slice()), &DMatrix::from_column_slice(n, 1, r.as_slice())).is_some() { report("weighted_residuals()"); }
                let d = cov.diagonal();
                if close(&DMatrix::from_column_slice(m, 1, st.linear_coefficients_variance().as_slice()), &DMatrix::from_column_slice(m, 1, &d.as_slice()[0..m])).is_some() { report("linear_coefficients_variance()"); }
                if close(&DMatrix::from_column_slice(p, 1, st.nonlinear_parameters_variance().as_slice()), &DMatrix::from_column_slice(p, 1, &d.as_slice()[m..m + p])).is_some() { report("nonlinear_parameters_variance()"); }
                let corr = DMatrix::from_fn(m + p, m + p, |a, b| cov[(a, b)] / (cov[(a, a)] * cov[(b, b)]).sqrt());
                if close(&st.calculate_correlation_matrix(), &corr).is_some() { report("calculate_correlation_matrix()"); }
                // the band radius is t * sqrt(j_i^T Cov j_i) with rows of the UNWEIGHTED J: the ratio must be the same for every sample
                let band = st.confidence_band_radius(0.9);
                let sig: Vec<f64> = (0..n).map(|i| (j.row(i) * &cov * j.row(i).transpose())[(0, 0)].sqrt()).collect();
                let t0 = band[0] / sig[0];
                if band.len() != n || (0..n).any(|i| (band[i] / sig[i] - t0).abs() > 1e-6 * t0.abs()) || !(t0 > 1.6 && t0 < 1.8) { report("confidence_band_radius(0.9) / sqrt(j_i^T Cov j_i) (expected the constant t(0.95; 26) = 1.7056)"); }
            }
            if !found { println!("NOT-REPRODUCED: statistics agree with their defining formulas"); }
        }
        _ => println!("NOT-REPRODUCED: unknown scenario"),
    }
}
