use vstd::prelude::*;
verus! {

pub struct MatR { pub r: nat, pub c: nat, pub e: Seq<Seq<real>> }
pub uninterp spec fn mmul(a: MatR, b: MatR) -> MatR;
pub uninterp spec fn msub(a: MatR, b: MatR) -> MatR;
pub uninterp spec fn mtr(a: MatR) -> MatR;
pub uninterp spec fn scale(a: MatR, t: real) -> MatR;
pub uninterp spec fn hcat(a: MatR, b: MatR) -> MatR;
pub uninterp spec fn frob2(a: MatR) -> real;
pub uninterp spec fn ident(n: nat) -> MatR;
pub uninterp spec fn rsqrt(x: real) -> real;
pub uninterp spec fn rowq(j: MatR, cov: MatR, i: int) -> real; // j_i^T cov j_i
pub enum WeightsR { Unit, Diag(Seq<real>) }
pub uninterp spec fn wmul(w: WeightsR, a: MatR) -> MatR;

#[verifier::external_body] pub struct Sc { _p: core::marker::PhantomData<u8> }
impl View for Sc { type V = real; uninterp spec fn view(&self) -> real; }
impl Clone for Sc { #[verifier::external_body] fn clone(&self) -> (r: Self) ensures r@ == self@ { unimplemented!() } }
impl Copy for Sc {}
#[verifier::external_body] pub struct DMatrix { _p: core::marker::PhantomData<u8> }
impl View for DMatrix { type V = MatR; uninterp spec fn view(&self) -> MatR; }
#[verifier::external_body] pub struct DVector { _p: core::marker::PhantomData<u8> }
impl View for DVector { type V = MatR; uninterp spec fn view(&self) -> MatR; }   // n x 1
#[verifier::external_body] pub struct Weights { _p: core::marker::PhantomData<u8> }
impl View for Weights { type V = WeightsR; uninterp spec fn view(&self) -> WeightsR; }

// ---- assumed nalgebra / num-traits surface (spelled as plain fns for the spike)
#[verifier::external_body] pub fn w_mul(w: &Weights, m: DMatrix) -> (r: DMatrix) ensures r@ == wmul(w@, m@) { unimplemented!() }
#[verifier::external_body] pub fn mv_mul(a: DMatrix, b: &DVector) -> (r: DVector) ensures r@ == mmul(a@, b@) { unimplemented!() }
#[verifier::external_body] pub fn mm_mul(a: DMatrix, b: DMatrix) -> (r: DMatrix) ensures r@ == mmul(a@, b@) { unimplemented!() }
#[verifier::external_body] pub fn v_sub(a: &DVector, b: DVector) -> (r: DVector) ensures r@ == msub(a@, b@) { unimplemented!() }
#[verifier::external_body] pub fn ms_mul(a: DMatrix, s: Sc) -> (r: DMatrix) ensures r@ == scale(a@, s@) { unimplemented!() }
impl DMatrix {
  #[verifier::external_body] pub fn clone(&self) -> (r: DMatrix) ensures r@ == self@ { unimplemented!() }
  #[verifier::external_body] pub fn transpose(&self) -> (r: DMatrix) ensures r@ == mtr(self@) { unimplemented!() }
  #[verifier::external_body] pub fn try_inverse(self) -> (r: Option<DMatrix>)
    ensures r matches Some(b) ==> mmul(self@, b@) == ident(self@.r) && mmul(b@, self@) == ident(self@.r) { unimplemented!() }
}
impl DVector {
  #[verifier::external_body] pub fn norm_squared(&self) -> (r: Sc) ensures r@ == frob2(self@) { unimplemented!() }
  #[verifier::external_body] pub fn zeros(n: usize) -> (r: DVector) ensures r@.r == n, r@.c == 1 { unimplemented!() }
}
#[verifier::external_body] pub fn from_usize(n: usize) -> (r: Option<Sc>) ensures r matches Some(v) ==> v@ == n as real { unimplemented!() }
#[verifier::external_body] pub fn sc_div(a: Sc, b: Sc) -> (r: Sc) requires b@ != 0real ensures r@ == a@ / b@ { unimplemented!() }
#[verifier::external_body] pub fn sc_sqrt(a: Sc) -> (r: Sc) ensures r@ == rsqrt(a@) { unimplemented!() }
#[verifier::external_body] pub fn fill_conf_sigma(v: &mut DVector, j: &DMatrix, cov: &DMatrix)   // stands for the X4(d) loop
  ensures forall |i: int| 0 <= i < j@.r ==> #[trigger] final(v)@.e[0][i] == rsqrt(rowq(j@, cov@, i)) { unimplemented!() }

pub enum SE<E> { ModelEvaluation(E), Underdetermined, IntegerToFloatConversion(usize), MatrixInversion }
impl<E> vstd::std_specs::convert::FromSpecImpl<E> for SE<E> {
  open spec fn obeys_from_spec() -> bool { true }
  open spec fn from_spec(e: E) -> Self { SE::ModelEvaluation(e) }
}
impl<E> core::convert::From<E> for SE<E> { fn from(e: E) -> (r: Self) ensures r == SE::ModelEvaluation(e) { SE::ModelEvaluation(e) } }

pub trait Model {
  type Error;
  spec fn g_len(&self) -> nat; spec fn g_nb(&self) -> nat; spec fn g_np(&self) -> nat;
  spec fn g_phi(&self) -> MatR;
  fn output_len(&self) -> (n: usize) ensures n == self.g_len();
  fn parameter_count(&self) -> (n: usize) ensures n == self.g_np();
  fn base_function_count(&self) -> (n: usize) ensures n == self.g_nb();
  fn eval(&self) -> (r: Result<DMatrix, Self::Error>) ensures r matches Ok(m) ==> m@ == self.g_phi();
}
pub uninterp spec fn g_jac<M: Model>(m: &M, c: MatR) -> MatR;   // hcat(Phi, [D_k c])
#[verifier::external_body]
pub fn model_function_jacobian<M: Model>(model: &M, c: &DVector) -> (r: Result<DMatrix, M::Error>)
  ensures r matches Ok(j) ==> j@ == g_jac(model, c@) && j@.r == model.g_len()
{ unimplemented!() }

pub struct FitStatistics {
  pub covariance_matrix: DMatrix, pub weighted_residuals: DVector, pub reduced_chi2: Sc,
  pub linear_coefficient_count: usize, pub degrees_of_freedom: usize, pub nonlinear_parameter_count: usize,
  pub unscaled_confidence_sigma: DVector,
}

pub fn try_calculate<M: Model>(model: &M, weighted_data: &DVector, weights: &Weights, linear_coefficients: &DVector)
   -> (res: Result<FitStatistics, SE<M::Error>>)
  requires model.g_nb() + model.g_np() <= usize::MAX,
  ensures
    (res matches Err(SE::Underdetermined)) ==> model.g_len() <= model.g_nb() + model.g_np(),
    res matches Ok(s) ==> {
      &&& model.g_len() > model.g_nb() + model.g_np()
      &&& s.degrees_of_freedom == model.g_len() - model.g_nb() - model.g_np()
      &&& s.weighted_residuals@ == msub(weighted_data@, mmul(wmul(weights@, model.g_phi()), linear_coefficients@))
      &&& s.reduced_chi2@ == frob2(s.weighted_residuals@) / (s.degrees_of_freedom as real)
      &&& s.linear_coefficient_count == model.g_nb() && s.nonlinear_parameter_count == model.g_np()
      &&& exists |inv: MatR| {
            let h = wmul(weights@, g_jac(model, linear_coefficients@));
            &&& mmul(mmul(mtr(h), h), inv) == ident(mmul(mtr(h), h).r)
            &&& #[trigger] scale(scale(inv, rsqrt(s.reduced_chi2@)), rsqrt(s.reduced_chi2@)) == s.covariance_matrix@ }
    },
{
        let output_len = model.output_len();
        let J = match model_function_jacobian(model, linear_coefficients) { Ok(v) => v, Err(e) => return Err(::core::convert::From::from(e)) };

        let H = w_mul(weights, J.clone());
        let weighted_residuals = v_sub(weighted_data, mv_mul(w_mul(weights, match model.eval() { Ok(v) => v, Err(e) => return Err(::core::convert::From::from(e)) }), linear_coefficients));
        let total_parameter_count = model.parameter_count() + model.base_function_count();
        if output_len <= total_parameter_count {
            return Err(SE::Underdetermined);
        }
        let degrees_of_freedom = output_len - total_parameter_count;

        let reduced_chi2 = sc_div(weighted_residuals.norm_squared(),
             from_usize(degrees_of_freedom)
                .ok_or(SE::IntegerToFloatConversion(degrees_of_freedom))?);

        let sigma: Sc = sc_sqrt(reduced_chi2);

        let HTH_inv = mm_mul(H.transpose(), H)
            .try_inverse()
            .ok_or(SE::MatrixInversion)?;
        let covariance_matrix = ms_mul(ms_mul(HTH_inv, sigma), sigma);

        let mut unscaled_confidence_sigma = DVector::zeros(output_len);
        fill_conf_sigma(&mut unscaled_confidence_sigma, &J, &covariance_matrix);

        proof {
          let h = wmul(weights@, g_jac(model, linear_coefficients@));
          assert(H@ == h);
          assert(mmul(mmul(mtr(h), h), HTH_inv@) == ident(mmul(mtr(h), h).r));
          assert(sigma@ == rsqrt(reduced_chi2@));
          assert(scale(scale(HTH_inv@, rsqrt(reduced_chi2@)), rsqrt(reduced_chi2@)) == covariance_matrix@);
          assert(degrees_of_freedom == model.g_len() - model.g_nb() - model.g_np());
          assert(reduced_chi2@ == frob2(weighted_residuals@) / (degrees_of_freedom as real));
        }
        Ok(FitStatistics {
            covariance_matrix,
            reduced_chi2,
            weighted_residuals,
            linear_coefficient_count: model.base_function_count(),
            degrees_of_freedom,
            nonlinear_parameter_count: model.parameter_count(),
            unscaled_confidence_sigma,
        })
}

}
fn main(){}
