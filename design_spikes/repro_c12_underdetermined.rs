use nalgebra::DVector;
use varpro::prelude::*;
use varpro::solvers::levmar::{LevMarProblemBuilder, LevMarSolver};

fn main() {
    let n: usize = std::env::args().nth(1).unwrap().parse().unwrap();
    let x = DVector::from_vec((0..n).map(|i| i as f64).collect::<Vec<_>>());
    let model = SeparableModelBuilder::<f64>::new(&["tau1", "tau2"])
        .function(&["tau1"], |x: &DVector<f64>, tau: f64| x.map(|x| (-x / tau).exp()))
        .partial_deriv("tau1", |x: &DVector<f64>, tau: f64| x.map(|x| (-x / tau).exp() * x / tau / tau))
        .function(&["tau2"], |x: &DVector<f64>, tau: f64| x.map(|x| (-x / tau).exp()))
        .partial_deriv("tau2", |x: &DVector<f64>, tau: f64| x.map(|x| (-x / tau).exp() * x / tau / tau))
        .independent_variable(x.clone())
        .initial_parameters(vec![1.1, 4.5])
        .build()
        .unwrap();
    let y = x.map(|x| 2. * (-x / 1.).exp() + 3. * (-x / 5.).exp() + 0.01*(x*1.7).sin());
    let problem = LevMarProblemBuilder::new(model).observations(y).build().unwrap();
    let r = LevMarSolver::default().fit_with_statistics(problem);
    match r { Ok((f,_s)) => println!("OK {:?}", f.minimization_report.termination), Err(f) => println!("ERR {:?}", f.minimization_report.termination) }
}
