use nalgebra::DVector;
use varpro::prelude::*;
use varpro::solvers::levmar::{LevMarProblemBuilder, LevMarSolver};
use levenberg_marquardt::LeastSquaresProblem;

fn main() {
    let which = std::env::args().nth(1).unwrap();
    let x = DVector::from_vec((0..10).map(|i| i as f64 * 100.).collect::<Vec<_>>());
    let model = SeparableModelBuilder::<f64>::new(&["tau1", "tau2"])
        .function(&["tau1"], |x: &DVector<f64>, tau: f64| x.map(|x| (-x / tau).exp()))
        .partial_deriv("tau1", |x: &DVector<f64>, tau: f64| x.map(|x| (-x / tau).exp() * x / tau / tau))
        .function(&["tau2"], |x: &DVector<f64>, tau: f64| x.map(|x| (-x / tau).exp()))
        .partial_deriv("tau2", |x: &DVector<f64>, tau: f64| x.map(|x| (-x / tau).exp() * x / tau / tau))
        .invariant_function(|x| DVector::from_element(x.len(), 1.))
        .independent_variable(x.clone())
        .initial_parameters(vec![1., 2.])
        .build()
        .unwrap();
    let y = x.map(|x| 2. * (-x / 1.).exp() + 3. * (-x / 5.).exp() + 1.);
    let mut problem = LevMarProblemBuilder::new(model).observations(y).build().unwrap();
    match which.as_str() {
        "inf" => { problem.set_params(&DVector::from_vec(vec![-0.1, 2.])); println!("res {:?}", problem.residuals().map(|r| r.len())); }
        "nan" => { problem.set_params(&DVector::from_vec(vec![f64::NAN, 2.])); println!("res {:?}", problem.residuals().map(|r| r.len())); }
        "badlen" => { problem.set_params(&DVector::from_vec(vec![3.0])); println!("res {:?} params {:?}", problem.residuals().map(|r| r.len()), problem.params()); }
        _ => {}
    }
}
