use vstd::prelude::*;
use std::ops::{Mul, Sub};
verus! {

pub ghost struct MatR { pub rows: nat, pub cols: nat, pub e: spec_fn(int,int) -> real }

#[verifier::external_body]
pub struct Mat { _p: core::marker::PhantomData<u8> }
impl View for Mat { type V = MatR; uninterp spec fn view(&self) -> MatR; }

pub uninterp spec fn mmul(a: MatR, b: MatR) -> MatR;
pub uninterp spec fn msub(a: MatR, b: MatR) -> MatR;

impl<'a> vstd::std_specs::ops::MulSpecImpl<Mat> for &'a Mat {
  open spec fn obeys_mul_spec() -> bool { false }
  open spec fn mul_req(self, rhs: Mat) -> bool { self@.cols == rhs@.rows }
  open spec fn mul_spec(self, rhs: Mat) -> Mat { arbitrary() }
}
impl<'a> Mul<Mat> for &'a Mat {
  type Output = Mat;
  #[verifier::external_body]
  fn mul(self, rhs: Mat) -> (r: Mat)
    ensures r@ == mmul(self@, rhs@)
  { unimplemented!() }
}
impl<'a,'b> vstd::std_specs::ops::MulSpecImpl<&'b Mat> for &'a Mat {
  open spec fn obeys_mul_spec() -> bool { false }
  open spec fn mul_req(self, rhs: &'b Mat) -> bool { self@.cols == rhs@.rows }
  open spec fn mul_spec(self, rhs: &'b Mat) -> Mat { arbitrary() }
}
impl<'a,'b> Mul<&'b Mat> for &'a Mat {
  type Output = Mat;
  #[verifier::external_body]
  fn mul(self, rhs: &'b Mat) -> (r: Mat)
    ensures r@ == mmul(self@, rhs@)
  { unimplemented!() }
}
impl<'a> vstd::std_specs::ops::SubSpecImpl<Mat> for &'a Mat {
  open spec fn obeys_sub_spec() -> bool { false }
  open spec fn sub_req(self, rhs: Mat) -> bool { self@.rows == rhs@.rows && self@.cols == rhs@.cols }
  open spec fn sub_spec(self, rhs: Mat) -> Mat { arbitrary() }
}
impl<'a> Sub<Mat> for &'a Mat {
  type Output = Mat;
  #[verifier::external_body]
  fn sub(self, rhs: Mat) -> (r: Mat)
    ensures r@ == msub(self@, rhs@)
  { unimplemented!() }
}

pub fn test(y: &Mat, p: &Mat, c: &Mat) -> (r: Mat)
  requires p@.cols == c@.rows, y@.rows == mmul(p@,c@).rows, y@.cols == mmul(p@,c@).cols
  ensures r@ == msub(y@, mmul(p@, c@))
{
  ::core::ops::Sub::sub(y, ::core::ops::Mul::mul(p, c))
}
pub fn test2(y: &Mat, p: &Mat, c: &Mat) -> (r: Mat)
  ensures r@ == msub(y@, mmul(p@, c@))
{
  ::core::ops::Sub::sub(y, ::core::ops::Mul::mul(p, c))
}

}
fn main(){}
