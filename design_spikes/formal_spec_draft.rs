// FORMAL APPENDIX TO DESIGN.md (draft, type-checked by `verus formal_spec_draft.rs`).
//
// Purpose: pin down, before any framework code, the exact spec vocabulary and the exact
// statements that the properties C01..C18 are reduced to.  Proof bodies that are not yet written
// are `admit()`-ed HERE ONLY (this is a design draft, not a check); in the real `la` crate every
// one of them has to be proved, because `la` is verified with `--no-cheating`.
//
// Layout mirrors DESIGN.md:  §A  la definitions   §B  la lemma/theorem statements
//                            §C  prelude (assumed) SVD facts      §D  model trait contract
//                            §E  LevMarProblem invariants and the property-level corollaries
use vstd::prelude::*;
verus! {

// =====================================================================================  §A
pub struct MatR { pub r: nat, pub c: nat, pub e: Seq<Seq<real>> }   // column-major: e[j][i]

impl MatR {
    pub open spec fn wf(self) -> bool {
        self.e.len() == self.c && forall |j: int| 0 <= j < self.c ==> (#[trigger] self.e[j]).len() == self.r
    }
    pub open spec fn get(self, i: int, j: int) -> real { self.e[j][i] }
}
pub open spec fn mat_new(r: nat, c: nat, f: spec_fn(int, int) -> real) -> MatR {
    MatR { r, c, e: Seq::new(c, |j: int| Seq::new(r, |i: int| f(i, j))) }
}
pub open spec fn sum(n: int, f: spec_fn(int) -> real) -> real decreases n {
    if n <= 0 { 0real } else { sum(n - 1, f) + f(n - 1) }
}
pub open spec fn mmul(a: MatR, b: MatR) -> MatR {
    mat_new(a.r, b.c, |i: int, j: int| sum(a.c as int, |k: int| a.get(i, k) * b.get(k, j)))
}
pub open spec fn madd(a: MatR, b: MatR) -> MatR { mat_new(a.r, a.c, |i: int, j: int| a.get(i, j) + b.get(i, j)) }
pub open spec fn msub(a: MatR, b: MatR) -> MatR { mat_new(a.r, a.c, |i: int, j: int| a.get(i, j) - b.get(i, j)) }
pub open spec fn scale(a: MatR, t: real) -> MatR { mat_new(a.r, a.c, |i: int, j: int| t * a.get(i, j)) }
pub open spec fn mtr(a: MatR) -> MatR { mat_new(a.c, a.r, |i: int, j: int| a.get(j, i)) }
pub open spec fn ident(n: nat) -> MatR { mat_new(n, n, |i: int, j: int| if i == j { 1real } else { 0real }) }
pub open spec fn zeros(r: nat, c: nat) -> MatR { mat_new(r, c, |i: int, j: int| 0real) }
pub open spec fn diagm(s: Seq<real>) -> MatR {
    mat_new(s.len(), s.len(), |i: int, j: int| if i == j { s[i] } else { 0real })
}
pub open spec fn col(a: MatR, s: int) -> MatR { mat_new(a.r, 1, |i: int, j: int| a.get(i, s)) }
pub open spec fn hcat(a: MatR, b: MatR) -> MatR {
    mat_new(a.r, a.c + b.c, |i: int, j: int| if j < a.c { a.get(i, j) } else { b.get(i, j - a.c) })
}
/// column stacking (what `to_vector` must produce): element (i,j) lands at j*r + i
pub open spec fn vecm(a: MatR) -> Seq<real> {
    Seq::new(a.r * a.c, |t: int| if a.r == 0 { 0real } else { a.get(t % (a.r as int), t / (a.r as int)) })
}
pub open spec fn frob2(a: MatR) -> real {
    sum(a.c as int, |j: int| sum(a.r as int, |i: int| a.get(i, j) * a.get(i, j)))
}
pub open spec fn is_zero(a: MatR) -> bool {
    forall |i: int, j: int| 0 <= i < a.r && 0 <= j < a.c ==> #[trigger] a.get(i, j) == 0real
}
pub open spec fn symmetric(a: MatR) -> bool { a.r == a.c && mtr(a) == a }

pub enum WeightsR { Unit, Diag(Seq<real>) }
/// row scaling; `Unit` is the identity (C06)
pub open spec fn wmul(w: WeightsR, a: MatR) -> MatR {
    match w {
        WeightsR::Unit => a,
        WeightsR::Diag(d) => mat_new(a.r, a.c, |i: int, j: int| d[i] * a.get(i, j)),
    }
}
pub open spec fn w_ok(w: WeightsR, rows: nat) -> bool {
    match w { WeightsR::Unit => true, WeightsR::Diag(d) => d.len() == rows }
}
/// threshold-truncated reciprocal: "singular values at or below eps count as zero" (C01)
pub open spec fn pinv_diag(s: Seq<real>, eps: real) -> Seq<real> {
    Seq::new(s.len(), |i: int| if s[i] > eps { 1real / s[i] } else { 0real })
}
pub open spec fn trunc(s: Seq<real>, eps: real) -> Seq<real> {
    Seq::new(s.len(), |i: int| if s[i] > eps { s[i] } else { 0real })
}

// ----- the SVD hypotheses as a predicate over arbitrary (U, s, Vt): keeps `la` free of uninterp
pub open spec fn svd_ok(a: MatR, u: MatR, s: Seq<real>, vt: MatR) -> bool {
    let k = if a.r <= a.c { a.r } else { a.c };
    &&& a.wf() && u.wf() && vt.wf()
    &&& u.r == a.r && u.c == k && s.len() == k && vt.r == k && vt.c == a.c
    &&& forall |i: int| 0 <= i < k ==> #[trigger] s[i] >= 0real
    &&& a == mmul(mmul(u, diagm(s)), vt)
    &&& mmul(mtr(u), u) == ident(k)
    &&& mmul(vt, mtr(vt)) == ident(k)
}
/// literally nalgebra svd.rs:617-634:  v_t.ad_mul( unscale_or_zero( u.ad_mul(b) ) )
pub open spec fn solve_spec(u: MatR, s: Seq<real>, vt: MatR, b: MatR, eps: real) -> MatR {
    mmul(mtr(vt), mmul(diagm(pinv_diag(s, eps)), mmul(mtr(u), b)))
}
/// the matrix the truncated solve is exact for
pub open spec fn a_eps(u: MatR, s: Seq<real>, vt: MatR, eps: real) -> MatR {
    mmul(mmul(u, diagm(trunc(s, eps))), vt)
}
pub open spec fn full_rank_at(s: Seq<real>, eps: real) -> bool { forall |i: int| 0 <= i < s.len() ==> #[trigger] s[i] > eps }

// =====================================================================================  §B
// C01 -------------------------------------------------------------------------------------
pub proof fn T_ls_normal(a: MatR, u: MatR, s: Seq<real>, vt: MatR, b: MatR, eps: real)
    requires svd_ok(a, u, s, vt), b.wf(), b.r == a.r, eps >= 0real,
    ensures ({
        let x = solve_spec(u, s, vt, b, eps);
        let ae = a_eps(u, s, vt, eps);
        &&& is_zero(mmul(mtr(ae), msub(b, mmul(ae, x))))          // normal equations of the truncated problem
        &&& full_rank_at(s, eps) ==> ae == a                       // no truncation => the problem itself
    }),
{ admit(); }

/// normal equations => minimiser, for every right-hand side column and every competitor z.
/// (single-column core proved in spike_ls_minimality.rs)
pub proof fn T_ls_min(a: MatR, b: MatR, x: MatR, z: MatR, sidx: int)
    requires a.wf(), b.wf(), x.wf(), z.wf(), b.r == a.r, x.r == a.c, x.c == b.c, z.r == a.c, z.c == 1,
             0 <= sidx < b.c, is_zero(mmul(mtr(a), msub(b, mmul(a, x)))),
    ensures frob2(msub(col(b, sidx), mmul(a, col(x, sidx)))) <= frob2(msub(col(b, sidx), mmul(a, z))),
{ admit(); }

/// minimum norm among all solutions of the (truncated) normal equations
pub proof fn T_ls_minnorm(a: MatR, u: MatR, s: Seq<real>, vt: MatR, b: MatR, eps: real, z: MatR)
    requires svd_ok(a, u, s, vt), b.wf(), b.r == a.r, eps >= 0real, z.wf(), z.r == a.c, z.c == b.c,
             is_zero(mmul(mtr(a_eps(u, s, vt, eps)), msub(b, mmul(a_eps(u, s, vt, eps), z)))),
    ensures frob2(solve_spec(u, s, vt, b, eps)) <= frob2(z),
{ admit(); }

/// "the coefficients depend linearly on the observations"
pub proof fn T_linear(u: MatR, s: Seq<real>, vt: MatR, b1: MatR, b2: MatR, t: real, eps: real)
    requires u.wf(), vt.wf(), b1.wf(), b2.wf(), b1.r == u.r, b2.r == u.r, b1.c == b2.c, s.len() == u.c, vt.r == u.c,
    ensures solve_spec(u, s, vt, madd(b1, scale(b2, t)), eps)
         == madd(solve_spec(u, s, vt, b1, eps), scale(solve_spec(u, s, vt, b2, eps), t)),
{ admit(); }

// C07 -------------------------------------------------------------------------------------
pub proof fn T_col(u: MatR, s: Seq<real>, vt: MatR, b: MatR, eps: real, sidx: int)
    requires u.wf(), vt.wf(), b.wf(), b.r == u.r, s.len() == u.c, vt.r == u.c, 0 <= sidx < b.c,
    ensures col(solve_spec(u, s, vt, b, eps), sidx) == solve_spec(u, s, vt, col(b, sidx), eps),
{ admit(); }

pub proof fn T_col_mul(a: MatR, b: MatR, sidx: int)
    requires a.wf(), b.wf(), a.c == b.r, 0 <= sidx < b.c,
    ensures col(mmul(a, b), sidx) == mmul(a, col(b, sidx)),
{ admit(); }

/// block s of the stacked vector is column s  (row order shared by residuals and Jacobian columns)
pub proof fn T_vec_block(a: MatR, sidx: int)
    requires a.wf(), 0 <= sidx < a.c,
    ensures vecm(a).subrange(sidx * a.r as int, (sidx + 1) * a.r as int) == a.e[sidx],
            vecm(col(a, sidx)) == a.e[sidx],
{ admit(); }

// C03 -------------------------------------------------------------------------------------
/// what the code computes per Jacobian column:  U (Uᵀ X) − X   with X = (W D_k) C
pub open spec fn kaufman_col(u: MatR, dwc: MatR) -> MatR { msub(mmul(u, mmul(mtr(u), dwc)), dwc) }

pub proof fn T_proj(a: MatR, u: MatR, s: Seq<real>, vt: MatR, x: MatR)
    requires svd_ok(a, u, s, vt), a.r >= a.c, full_rank_at(s, 0real), x.wf(), x.r == a.r,
    ensures ({
        let p = mmul(u, mtr(u));
        &&& symmetric(p) && mmul(p, p) == p && mmul(p, a) == a      // orthogonal projector fixing range(A)
        &&& kaufman_col(u, x) == msub(mmul(p, x), x)                // = −(I − P) X
        &&& is_zero(mmul(mtr(a), kaufman_col(u, x)))                // every Jacobian column ⟂ range(A)
    }),
{ admit(); }

// C06 -------------------------------------------------------------------------------------
pub proof fn T_w_unit(a: MatR, n: nat)
    requires a.wf(), a.r == n,
    ensures wmul(WeightsR::Unit, a) == a,
            wmul(WeightsR::Diag(Seq::new(n, |i: int| 1real)), a) == a,
{ admit(); }
pub proof fn T_w_mul(w: WeightsR, a: MatR, b: MatR)
    requires a.wf(), b.wf(), a.c == b.r, w_ok(w, a.r),
    ensures wmul(w, mmul(a, b)) == mmul(wmul(w, a), b),
{ admit(); }
pub proof fn T_w_sub(w: WeightsR, a: MatR, b: MatR)
    requires a.wf(), b.wf(), a.r == b.r, a.c == b.c, w_ok(w, a.r),
    ensures wmul(w, msub(a, b)) == msub(wmul(w, a), wmul(w, b)),
{ admit(); }
/// a zero weight removes the influence of that sample
pub proof fn T_w_zero_row(d: Seq<real>, a: MatR, a2: MatR)
    requires a.wf(), a2.wf(), a.r == a2.r, a.c == a2.c, d.len() == a.r,
             forall |i: int, j: int| 0 <= i < a.r && 0 <= j < a.c && d[i] != 0real ==> #[trigger] a.get(i, j) == a2.get(i, j),
    ensures wmul(WeightsR::Diag(d), a) == wmul(WeightsR::Diag(d), a2),
{ admit(); }

// C13 -------------------------------------------------------------------------------------
pub proof fn T_cov(h: MatR, inv: MatR, sigma2: real)
    requires h.wf(), inv.wf(), inv.r == h.c, inv.c == h.c, sigma2 >= 0real,
             mmul(mmul(mtr(h), h), inv) == ident(h.c), mmul(inv, mmul(mtr(h), h)) == ident(h.c),
    ensures ({
        let cov = scale(inv, sigma2);
        &&& symmetric(cov)
        &&& forall |i: int| 0 <= i < h.c ==> #[trigger] cov.get(i, i) >= 0real
        &&& forall |i: int, j: int| 0 <= i < h.c && 0 <= j < h.c
                ==> #[trigger] cov.get(i, j) * cov.get(i, j) <= cov.get(i, i) * cov.get(j, j)   // |rho_ij| <= 1
    }),
{ admit(); }

// =====================================================================================  §C
// PRELUDE (assumed, NOT part of `la`): nalgebra's SVD as deterministic functions of the input
pub uninterp spec fn svd_u(a: MatR) -> MatR;
pub uninterp spec fn svd_s(a: MatR) -> Seq<real>;
pub uninterp spec fn svd_vt(a: MatR) -> MatR;
#[verifier::external_body]
pub proof fn axiom_nalgebra_svd(a: MatR)
    requires a.wf(), a.r >= 1, a.c >= 1,
    ensures svd_ok(a, svd_u(a), svd_s(a), svd_vt(a)),
{ }

// =====================================================================================  §D
/// ghost face of `SeparableNonlinearModel`: what "a model honouring the trait contract" means
pub struct ModelG {
    pub len: nat, pub nbasis: nat, pub nparams: nat,
    pub phi: spec_fn(Seq<real>) -> MatR,            // Φ(α)
    pub dphi: spec_fn(Seq<real>, int) -> MatR,      // ∂Φ/∂α_k
}
pub open spec fn model_ok(m: ModelG) -> bool {
    &&& m.len >= 1 && m.nbasis >= 1 && m.nparams >= 1
    &&& forall |al: Seq<real>| al.len() == m.nparams ==> {
            let p = #[trigger] (m.phi)(al);
            p.wf() && p.r == m.len && p.c == m.nbasis }
    &&& forall |al: Seq<real>, k: int| al.len() == m.nparams && 0 <= k < m.nparams ==> {
            let d = #[trigger] (m.dphi)(al, k);
            d.wf() && d.r == m.len && d.c == m.nbasis }
}

// =====================================================================================  §E
/// everything `set_params` caches, as a function of (model, data, weights, eps, α) ONLY  (C10)
pub struct CacheR { pub coeff: MatR, pub resid: MatR, pub u: MatR, pub s: Seq<real>, pub vt: MatR }
pub open spec fn spec_cache(m: ModelG, y_w: MatR, w: WeightsR, eps: real, al: Seq<real>) -> CacheR {
    let phi_w = wmul(w, (m.phi)(al));
    let (u, s, vt) = (svd_u(phi_w), svd_s(phi_w), svd_vt(phi_w));
    let c = solve_spec(u, s, vt, y_w, eps);
    CacheR { coeff: c, resid: msub(y_w, mmul(phi_w, c)), u, s, vt }
}
/// residual vector handed to the optimizer (C02) and Jacobian column k (C03)
pub open spec fn spec_residuals(m: ModelG, y_w: MatR, w: WeightsR, eps: real, al: Seq<real>) -> Seq<real> {
    vecm(spec_cache(m, y_w, w, eps, al).resid)
}
pub open spec fn spec_jac_col(m: ModelG, y_w: MatR, w: WeightsR, eps: real, al: Seq<real>, k: int) -> Seq<real> {
    let c = spec_cache(m, y_w, w, eps, al);
    vecm(kaufman_col(c.u, mmul(wmul(w, (m.dphi)(al, k)), c.coeff)))
}

/// C02: the cached residual is W(Y − ΦC) for the data as supplied
pub proof fn C02_residual_is_weighted_misfit(m: ModelG, y: MatR, w: WeightsR, eps: real, al: Seq<real>)
    requires model_ok(m), al.len() == m.nparams, y.wf(), y.r == m.len, y.c >= 1, w_ok(w, m.len),
    ensures ({
        let c = spec_cache(m, wmul(w, y), w, eps, al);
        c.resid == wmul(w, msub(y, mmul((m.phi)(al), c.coeff)))
    }),
{ admit(); }

/// C06: the weighted problem IS the unweighted problem on row-scaled model, derivatives and data
pub open spec fn row_scaled(m: ModelG, w: WeightsR) -> ModelG {
    ModelG { phi: |al: Seq<real>| wmul(w, (m.phi)(al)), dphi: |al: Seq<real>, k: int| wmul(w, (m.dphi)(al, k)), ..m }
}
pub proof fn C06_weights_are_row_scaling(m: ModelG, y: MatR, w: WeightsR, eps: real, al: Seq<real>, k: int)
    requires model_ok(m), al.len() == m.nparams, y.wf(), y.r == m.len, w_ok(w, m.len), 0 <= k < m.nparams,
    ensures
        spec_cache(m, wmul(w, y), w, eps, al) == spec_cache(row_scaled(m, w), wmul(w, y), WeightsR::Unit, eps, al),
        spec_jac_col(m, wmul(w, y), w, eps, al, k) == spec_jac_col(row_scaled(m, w), wmul(w, y), WeightsR::Unit, eps, al, k),
{ admit(); }

/// C07: column s of a multi-rhs problem is the single-rhs problem for column s
pub proof fn C07_columns_are_independent(m: ModelG, y_w: MatR, w: WeightsR, eps: real, al: Seq<real>, sidx: int, k: int)
    requires model_ok(m), al.len() == m.nparams, y_w.wf(), y_w.r == m.len, 0 <= sidx < y_w.c, w_ok(w, m.len), 0 <= k < m.nparams,
    ensures ({
        let big = spec_cache(m, y_w, w, eps, al);
        let one = spec_cache(m, col(y_w, sidx), w, eps, al);
        &&& col(big.coeff, sidx) == one.coeff
        &&& col(big.resid, sidx) == one.resid
        &&& spec_residuals(m, y_w, w, eps, al).subrange(sidx * m.len as int, (sidx + 1) * m.len as int)
                == spec_residuals(m, col(y_w, sidx), w, eps, al)
        &&& spec_jac_col(m, y_w, w, eps, al, k).subrange(sidx * m.len as int, (sidx + 1) * m.len as int)
                == spec_jac_col(m, col(y_w, sidx), w, eps, al, k)
    }),
{ admit(); }

} // verus!
fn main() {}
