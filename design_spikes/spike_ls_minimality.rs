use vstd::prelude::*;
verus! {

pub struct MatR { pub r: nat, pub c: nat, pub e: Seq<Seq<real>> }

impl MatR {
  pub open spec fn wf(self) -> bool {
    self.e.len() == self.c && forall |j:int| 0 <= j < self.c ==> (#[trigger] self.e[j]).len() == self.r
  }
  pub open spec fn get(self, i: int, j: int) -> real { self.e[j][i] }
}
pub open spec fn mat_new(r: nat, c: nat, f: spec_fn(int,int)->real) -> MatR {
  MatR { r, c, e: Seq::new(c, |j:int| Seq::new(r, |i:int| f(i,j))) }
}
pub open spec fn sum(n: int, f: spec_fn(int)->real) -> real decreases n {
  if n <= 0 { 0real } else { sum(n-1, f) + f(n-1) }
}
pub open spec fn mmul(a: MatR, b: MatR) -> MatR {
  mat_new(a.r, b.c, |i:int,j:int| sum(a.c as int, |k:int| a.get(i,k) * b.get(k,j)))
}

pub proof fn sum_ext(n: int, f: spec_fn(int)->real, g: spec_fn(int)->real)
  requires forall |k:int| 0 <= k < n ==> #[trigger] f(k) == g(k)
  ensures sum(n, f) == sum(n, g)
  decreases n
{ if n > 0 { sum_ext(n-1, f, g); } }

pub proof fn sum_scale(n: int, f: spec_fn(int)->real, s: real)
  ensures sum(n, |k:int| s * f(k)) == s * sum(n, f)
  decreases n
{
  if n > 0 {
    sum_scale(n-1, f, s);
    assert(s * (sum(n-1,f) + f(n-1)) == s*sum(n-1,f) + s*f(n-1)) by(nonlinear_arith);
  } else {
    assert(s * 0real == 0real) by(nonlinear_arith);
  }
}
pub proof fn sum_add(n: int, f: spec_fn(int)->real, g: spec_fn(int)->real)
  ensures sum(n, |k:int| f(k) + g(k)) == sum(n, f) + sum(n, g)
  decreases n
{ if n > 0 { sum_add(n-1, f, g); } }

pub proof fn sum_zero(n: int)
  ensures sum(n, |k:int| 0real) == 0real
  decreases n
{ if n > 0 { sum_zero(n-1); } }

// Fubini
pub proof fn sum_swap(n: int, m: int, f: spec_fn(int,int)->real)
  ensures sum(n, |k:int| sum(m, |l:int| f(k,l))) == sum(m, |l:int| sum(n, |k:int| f(k,l)))
  decreases n
{
  if n <= 0 {
    sum_zero(m);
    sum_ext(m, |l:int| sum(n, |k:int| f(k,l)), |l:int| 0real);
  } else {
    sum_swap(n-1, m, f);
    // rhs: sum_l ( sum_{k<n-1} f(k,l) + f(n-1,l) )
    let g1 = |l:int| sum(n-1, |k:int| f(k,l));
    let g2 = |l:int| f(n-1, l);
    sum_add(m, g1, g2);
    sum_ext(m, |l:int| sum(n, |k:int| f(k,l)), |l:int| g1(l) + g2(l));
  }
}

pub proof fn mmul_assoc(a: MatR, b: MatR, c: MatR)
  requires a.wf(), b.wf(), c.wf(), a.c == b.r, b.c == c.r
  ensures mmul(mmul(a,b),c) == mmul(a, mmul(b,c))
{
  let l = mmul(mmul(a,b),c);
  let r = mmul(a, mmul(b,c));
  assert(l.e.len() == r.e.len());
  assert forall |j:int| 0 <= j < c.c implies #[trigger] l.e[j] == r.e[j] by {
    assert forall |i:int| 0 <= i < a.r implies #[trigger] l.e[j][i] == r.e[j][i] by {
      let ab = mmul(a,b); let bc = mmul(b,c);
      // l = sum_{l<b.c} ab(i,l) * c(l,j) ; ab(i,l) = sum_{k<a.c} a(i,k) b(k,l)
      let f = |k:int, ll:int| a.get(i,k) * b.get(k,ll) * c.get(ll,j);
      // lhs summand
      let L1 = |ll:int| ab.get(i,ll) * c.get(ll,j); let L2 = |ll:int| sum(a.c as int, |k:int| f(k,ll));
      assert forall |ll:int| 0 <= ll < b.c implies
         #[trigger] L1(ll) == L2(ll) by {
         let h = |k:int| a.get(i,k) * b.get(k,ll);
         sum_scale(a.c as int, h, c.get(ll,j));
         assert(ab.get(i,ll) == sum(a.c as int, h));
         let p = |k:int| c.get(ll,j) * h(k); let q = |k:int| f(k,ll);
         assert forall |k:int| 0 <= k < a.c implies #[trigger] p(k) == q(k) by {
           assert(c.get(ll,j) * (a.get(i,k) * b.get(k,ll)) == a.get(i,k) * b.get(k,ll) * c.get(ll,j)) by(nonlinear_arith);
         }
         sum_ext(a.c as int, p, q);
         assert(ab.get(i,ll) * c.get(ll,j) == c.get(ll,j) * sum(a.c as int, h)) by(nonlinear_arith)
           requires ab.get(i,ll) == sum(a.c as int, h);
      }
      sum_ext(b.c as int, L1, L2);
      // rhs summand
      let R1 = |k:int| a.get(i,k) * bc.get(k,j); let R2 = |k:int| sum(b.c as int, |ll:int| f(k,ll));
      assert forall |k:int| 0 <= k < a.c implies
         #[trigger] R1(k) == R2(k) by {
         let h = |ll:int| b.get(k,ll) * c.get(ll,j);
         sum_scale(b.c as int, h, a.get(i,k));
         assert(bc.get(k,j) == sum(b.c as int, h));
         let p = |ll:int| a.get(i,k) * h(ll); let q = |ll:int| f(k,ll);
         assert forall |ll:int| 0 <= ll < b.c implies #[trigger] p(ll) == q(ll) by {
           assert(a.get(i,k) * (b.get(k,ll) * c.get(ll,j)) == a.get(i,k) * b.get(k,ll) * c.get(ll,j)) by(nonlinear_arith);
         }
         sum_ext(b.c as int, p, q);
      }
      sum_ext(a.c as int, R1, R2);
      sum_swap(a.c as int, b.c as int, f);
    }
    assert(l.e[j] =~= r.e[j]);
  }
  assert(l.e =~= r.e);
}


pub open spec fn mtr(a: MatR) -> MatR { mat_new(a.c, a.r, |i:int,j:int| a.get(j,i)) }
pub open spec fn msub(a: MatR, b: MatR) -> MatR { mat_new(a.r, a.c, |i:int,j:int| a.get(i,j) - b.get(i,j)) }
pub open spec fn frob2(a: MatR) -> real { sum(a.c as int, |j:int| sum(a.r as int, |i:int| a.get(i,j)*a.get(i,j))) }
pub open spec fn is_zero(a: MatR) -> bool { forall |i:int,j:int| 0 <= i < a.r && 0 <= j < a.c ==> #[trigger] a.get(i,j) == 0real }

pub proof fn sum_nonneg(n: int, f: spec_fn(int)->real)
  requires forall |k:int| 0 <= k < n ==> #[trigger] f(k) >= 0real
  ensures sum(n, f) >= 0real
  decreases n
{ if n > 0 { sum_nonneg(n-1, f); } }

pub proof fn sum_sub(n: int, f: spec_fn(int)->real, g: spec_fn(int)->real)
  ensures sum(n, |k:int| f(k) - g(k)) == sum(n, f) - sum(n, g)
  decreases n
{ if n > 0 { sum_sub(n-1, f, g); } }

pub proof fn sum_all_zero(n: int, f: spec_fn(int)->real)
  requires forall |k:int| 0 <= k < n ==> #[trigger] f(k) == 0real
  ensures sum(n, f) == 0real
  decreases n
{ if n > 0 { sum_all_zero(n-1, f); } }

// single-column least squares: normal equations imply minimality
pub proof fn ls_min_col(a: MatR, b: MatR, x: MatR, z: MatR)
  requires a.wf(), b.wf(), x.wf(), z.wf(), b.c == 1, x.c == 1, z.c == 1, b.r == a.r, x.r == a.c, z.r == a.c,
           is_zero(mmul(mtr(a), msub(b, mmul(a, x)))),
  ensures frob2(msub(b, mmul(a, x))) <= frob2(msub(b, mmul(a, z)))
{
  let n = a.r as int; let m = a.c as int;
  let rho = |i:int| b.get(i,0) - sum(m, |k:int| a.get(i,k) * x.get(k,0));
  let d = |k:int| x.get(k,0) - z.get(k,0);
  let w = |i:int| sum(m, |k:int| a.get(i,k) * d(k));
  let rx = msub(b, mmul(a, x)); let rz = msub(b, mmul(a, z));
  // entries
  assert forall |i:int| 0 <= i < n implies #[trigger] rx.get(i,0) == rho(i) by {}
  assert forall |i:int| 0 <= i < n implies #[trigger] rz.get(i,0) == rho(i) + w(i) by {
    let fx = |k:int| a.get(i,k) * x.get(k,0);
    let fz = |k:int| a.get(i,k) * z.get(k,0);
    let fd = |k:int| a.get(i,k) * d(k);
    sum_sub(m, fx, fz);
    let fxz = |k:int| fx(k) - fz(k);
    assert forall |k:int| 0 <= k < m implies #[trigger] fxz(k) == fd(k) by {
      assert(a.get(i,k) * x.get(k,0) - a.get(i,k) * z.get(k,0) == a.get(i,k) * (x.get(k,0) - z.get(k,0))) by(nonlinear_arith);
    }
    sum_ext(m, fxz, fd);
    assert(rz.get(i,0) == b.get(i,0) - sum(m, fz));
  }
  // frob2 as single sums
  let sq_x = |i:int| rho(i)*rho(i);
  let sq_z = |i:int| (rho(i)+w(i))*(rho(i)+w(i));
  let cross = |i:int| rho(i)*w(i);
  let sq_w = |i:int| w(i)*w(i);
  assert(frob2(rx) == sum(n, sq_x)) by {
    let inner = |i:int| rx.get(i,0)*rx.get(i,0);
    sum_ext(n, inner, sq_x);
    assert(rx.c == 1);
    reveal_with_fuel(sum, 2);
    let outer = |j:int| sum(rx.r as int, |i:int| rx.get(i,j)*rx.get(i,j));
    assert(sum(1, outer) == sum(0, outer) + outer(0));
    assert(outer(0) == sum(n, |i:int| rx.get(i,0)*rx.get(i,0)));
    sum_ext(n, |i:int| rx.get(i,0)*rx.get(i,0), inner);
  }
  assert(frob2(rz) == sum(n, sq_z)) by {
    let inner = |i:int| rz.get(i,0)*rz.get(i,0);
    sum_ext(n, inner, sq_z);
    reveal_with_fuel(sum, 2);
    let outer = |j:int| sum(rz.r as int, |i:int| rz.get(i,j)*rz.get(i,j));
    assert(sum(1, outer) == sum(0, outer) + outer(0));
    sum_ext(n, |i:int| rz.get(i,0)*rz.get(i,0), inner);
  }
  // expand square
  let two_cross = |i:int| 2real * cross(i);
  let s1 = |i:int| sq_x(i) + two_cross(i);
  let s2 = |i:int| s1(i) + sq_w(i);
  assert forall |i:int| 0 <= i < n implies #[trigger] sq_z(i) == s2(i) by {
    assert((rho(i)+w(i))*(rho(i)+w(i)) == rho(i)*rho(i) + 2real*(rho(i)*w(i)) + w(i)*w(i)) by(nonlinear_arith);
  }
  sum_ext(n, sq_z, s2);
  sum_add(n, s1, sq_w);
  sum_add(n, sq_x, two_cross);
  sum_scale(n, cross, 2real);
  // cross term is zero: sum_i rho_i sum_k a_ik d_k = sum_k d_k sum_i a_ik rho_i
  let f2 = |i:int, k:int| rho(i) * a.get(i,k) * d(k);
  let c1 = |i:int| sum(m, |k:int| f2(i,k));
  assert forall |i:int| 0 <= i < n implies #[trigger] cross(i) == c1(i) by {
    let h = |k:int| a.get(i,k) * d(k);
    sum_scale(m, h, rho(i));
    let p = |k:int| rho(i) * h(k); let q = |k:int| f2(i,k);
    assert forall |k:int| 0 <= k < m implies #[trigger] p(k) == q(k) by {
      assert(rho(i) * (a.get(i,k) * d(k)) == rho(i) * a.get(i,k) * d(k)) by(nonlinear_arith);
    }
    sum_ext(m, p, q);
  }
  sum_ext(n, cross, c1);
  sum_swap(n, m, f2);
  let c2 = |k:int| sum(n, |i:int| f2(i,k));
  let atr = mmul(mtr(a), rx);
  assert forall |k:int| 0 <= k < m implies #[trigger] c2(k) == 0real by {
    // (A^T rho)_k = sum_i a_ik rho_i = 0
    let g = |i:int| a.get(i,k) * rho(i);
    assert(atr.get(k,0) == 0real);
    let g0 = |i:int| mtr(a).get(k,i) * rx.get(i,0);
    assert(atr.get(k,0) == sum(n, g0));
    sum_ext(n, g0, g);
    sum_scale(n, g, d(k));
    let p = |i:int| d(k) * g(i); let q = |i:int| f2(i,k);
    assert forall |i:int| 0 <= i < n implies #[trigger] p(i) == q(i) by {
      assert(d(k) * (a.get(i,k) * rho(i)) == rho(i) * a.get(i,k) * d(k)) by(nonlinear_arith);
    }
    sum_ext(n, p, q);
    assert(d(k) * 0real == 0real) by(nonlinear_arith);
  }
  sum_all_zero(m, c2);
  assert(2real * 0real == 0real) by(nonlinear_arith);
  // squares nonneg
  assert forall |i:int| 0 <= i < n implies #[trigger] sq_w(i) >= 0real by {
    assert(w(i)*w(i) >= 0real) by(nonlinear_arith);
  }
  sum_nonneg(n, sq_w);
}

}
fn main(){}
