use vstd::prelude::*;
verus! {

pub ghost struct MatR { pub rows: nat, pub cols: nat, pub e: spec_fn(int,int) -> real }
pub uninterp spec fn mmul(a: MatR, b: MatR) -> MatR;
pub uninterp spec fn msub(a: MatR, b: MatR) -> MatR;
pub uninterp spec fn wmul(w: WeightsR, b: MatR) -> MatR;
pub uninterp spec fn pinv_solve(a: MatR, b: MatR, eps: real) -> MatR;
pub ghost enum WeightsR { Unit, Diag(Seq<real>) }

#[verifier::external_body]
pub struct DMatrix { _p: core::marker::PhantomData<u8> }
impl View for DMatrix { type V = MatR; uninterp spec fn view(&self) -> MatR; }
#[verifier::external_body]
pub struct DVector { _p: core::marker::PhantomData<u8> }
impl View for DVector { type V = Seq<real>; uninterp spec fn view(&self) -> Seq<real>; }

#[verifier::external_body]
pub struct Scalar { _p: core::marker::PhantomData<u8> }
impl View for Scalar { type V = real; uninterp spec fn view(&self) -> real; }
impl Clone for Scalar { #[verifier::external_body] fn clone(&self) -> (r: Self) ensures r@ == self@ { unimplemented!() } }
impl Copy for Scalar {}

#[verifier::external_body]
pub struct Weights { _p: core::marker::PhantomData<u8> }
impl View for Weights { type V = WeightsR; uninterp spec fn view(&self) -> WeightsR; }

#[verifier::external_body]
pub struct SVD { _p: core::marker::PhantomData<u8> }
impl SVD {
  pub uninterp spec fn of(&self) -> MatR;   // the matrix it decomposes
  #[verifier::external_body]
  pub fn solve(&self, b: &DMatrix, eps: Scalar) -> (r: Result<DMatrix, &'static str>)
    ensures eps@ >= 0real ==> r.is_ok() && r.unwrap()@ == pinv_solve(self.of(), b@, eps@)
  { unimplemented!() }
}
impl DMatrix {
  #[verifier::external_body]
  pub fn svd(self, cu: bool, cv: bool) -> (r: SVD)
    ensures r.of() == self@
  { unimplemented!() }
}
impl Clone for DMatrix { #[verifier::external_body] fn clone(&self) -> (r: Self) ensures r@ == self@ { unimplemented!() } }
impl Clone for DVector { #[verifier::external_body] fn clone(&self) -> (r: Self) ensures r@ == self@ { unimplemented!() } }

#[verifier::external_body]
pub fn w_mul(w: &Weights, m: DMatrix) -> (r: DMatrix) ensures r@ == wmul(w@, m@) { unimplemented!() }
#[verifier::external_body]
pub fn m_mul(a: &DMatrix, b: &DMatrix) -> (r: DMatrix) ensures r@ == mmul(a@, b@) { unimplemented!() }
#[verifier::external_body]
pub fn m_sub(a: &DMatrix, b: DMatrix) -> (r: DMatrix) ensures r@ == msub(a@, b@) { unimplemented!() }

pub assume_specification<T, U> [core::option::Option::<T>::zip] (a: Option<T>, b: Option<U>) -> (r: Option<(T, U)>)
  where T: core::marker::Destruct, U: core::marker::Destruct
  ensures r == (match (a, b) { (Some(x), Some(y)) => Some((x, y)), _ => None });

pub trait SeparableNonlinearModel {
  type Error;
  spec fn sp_params(&self) -> Seq<real>;
  spec fn sp_eval(&self, p: Seq<real>) -> Option<MatR>;
  fn set_params(&mut self, parameters: DVector) -> (r: Result<(), Self::Error>)
    ensures r.is_ok() ==> final(self).sp_params() == parameters@,
            r.is_err() ==> final(self).sp_params() == old(self).sp_params(),
            forall |p: Seq<real>| final(self).sp_eval(p) == old(self).sp_eval(p);
  fn params(&self) -> (r: DVector) ensures r@ == self.sp_params();
  fn eval(&self) -> (r: Result<DMatrix, Self::Error>)
    ensures r.is_ok() == self.sp_eval(self.sp_params()).is_some(),
            r matches Ok(m) ==> m@ == self.sp_eval(self.sp_params()).unwrap();
}

pub struct CachedCalculations {
  pub current_residuals: DMatrix,
  pub current_svd: SVD,
  pub linear_coefficients: DMatrix,
}

pub struct LevMarProblem<Model: SeparableNonlinearModel> {
  pub Y_w: DMatrix,
  pub model: Model,
  pub svd_epsilon: Scalar,
  pub weights: Weights,
  pub cached: Option<CachedCalculations>,
}


impl<'a> vstd::std_specs::ops::MulSpecImpl<DMatrix> for &'a Weights {
  open spec fn obeys_mul_spec() -> bool { false }
  open spec fn mul_req(self, rhs: DMatrix) -> bool { true }
  open spec fn mul_spec(self, rhs: DMatrix) -> DMatrix { arbitrary() }
}
impl<'a> core::ops::Mul<DMatrix> for &'a Weights { type Output = DMatrix;
  #[verifier::external_body] fn mul(self, rhs: DMatrix) -> (r: DMatrix) ensures r@ == wmul(self@, rhs@) { unimplemented!() } }
impl<'a,'b> vstd::std_specs::ops::MulSpecImpl<&'b DMatrix> for &'a DMatrix {
  open spec fn obeys_mul_spec() -> bool { false }
  open spec fn mul_req(self, rhs: &'b DMatrix) -> bool { true }
  open spec fn mul_spec(self, rhs: &'b DMatrix) -> DMatrix { arbitrary() }
}
impl<'a,'b> core::ops::Mul<&'b DMatrix> for &'a DMatrix { type Output = DMatrix;
  #[verifier::external_body] fn mul(self, rhs: &'b DMatrix) -> (r: DMatrix) ensures r@ == mmul(self@, rhs@) { unimplemented!() } }
impl<'a> vstd::std_specs::ops::SubSpecImpl<DMatrix> for &'a DMatrix {
  open spec fn obeys_sub_spec() -> bool { false }
  open spec fn sub_req(self, rhs: DMatrix) -> bool { true }
  open spec fn sub_spec(self, rhs: DMatrix) -> DMatrix { arbitrary() }
}
impl<'a> core::ops::Sub<DMatrix> for &'a DMatrix { type Output = DMatrix;
  #[verifier::external_body] fn sub(self, rhs: DMatrix) -> (r: DMatrix) ensures r@ == msub(self@, rhs@) { unimplemented!() } }
impl<Model: SeparableNonlinearModel> LevMarProblem<Model> {
  fn set_params(&mut self, params: &DVector)
    requires old(self).svd_epsilon@ >= 0real
    ensures
      final(self).cached.is_some() ==> final(self).model.sp_params() == params@,
      final(self).Y_w == old(self).Y_w, final(self).weights == old(self).weights,
      final(self).cached matches Some(c) ==> ({
         let phi = final(self).model.sp_eval(params@).unwrap();
         let phiw = wmul(final(self).weights@, phi);
         &&& c.linear_coefficients@ == pinv_solve(phiw, final(self).Y_w@, final(self).svd_epsilon@)
         &&& c.current_residuals@ == msub(final(self).Y_w@, mmul(phiw, c.linear_coefficients@))
         &&& c.current_svd.of() == phiw
      }),
  {
/*L501*/ if self . model . set_params (params . clone ()) . is_err () { self . cached = None ; }
/*L505*/ let Phi_w = self . model . eval () . ok () . map (| Phi : DMatrix | -> (o : DMatrix) ensures o@ == wmul(self.weights@, Phi@) { :: core :: ops :: Mul :: mul (& self . weights , Phi) }) ;
/*L508*/ let svd_epsilon = self . svd_epsilon ;
/*L509*/ let current_svd = Phi_w . as_ref () . map (| Phi_w : & DMatrix | -> (o : SVD) ensures o.of() == Phi_w@ { Phi_w . clone () . svd (true , true) }) ;
/*L510*/ let linear_coefficients = current_svd . as_ref () . and_then (| svd : & SVD | -> (o : Option<DMatrix>) requires svd_epsilon@ >= 0real ensures o matches Some(c) && c@ == pinv_solve(svd.of(), self.Y_w@, svd_epsilon@) { svd . solve (& self . Y_w , svd_epsilon) . ok () }) ;
/*L515*/ let current_residuals = Phi_w . zip (linear_coefficients . as_ref ()) . map (| __p0 : (DMatrix, & DMatrix) | -> (o : DMatrix) ensures o@ == msub(self.Y_w@, mmul(__p0.0@, __p0.1@)) { let (Phi_w , coeff) = __p0 ; :: core :: ops :: Sub :: sub (& self . Y_w , :: core :: ops :: Mul :: mul (& Phi_w , coeff)) }) ;
/*L520*/ if let (Some (current_residuals) , Some (current_svd) , Some (linear_coefficients)) = (current_residuals , current_svd , linear_coefficients) { self . cached = Some (CachedCalculations { current_residuals , current_svd , linear_coefficients , }) } else { self . cached = None ; }
  }
}

}
fn main(){}
