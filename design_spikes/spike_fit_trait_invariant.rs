use vstd::prelude::*;
verus! {

#[verifier::external_body]
pub struct DVector { _p: core::marker::PhantomData<u8> }
impl View for DVector { type V = Seq<real>; uninterp spec fn view(&self) -> Seq<real>; }

pub enum TerminationReason { User, Numerical, ResidualsZero, Orthogonal, Converged { ftol: bool, xtol: bool }, LostPatience, Other }
impl TerminationReason {
  pub open spec fn sp_success(&self) -> bool { matches!(self, TerminationReason::ResidualsZero | TerminationReason::Orthogonal | TerminationReason::Converged{..}) }
  #[verifier::external_body]
  pub fn was_successful(&self) -> (r: bool) ensures r == self.sp_success() { unimplemented!() }
}
pub struct MinimizationReport { pub termination: TerminationReason, pub number_of_evaluations: usize }

// the LM crate's trait, declared with ghost invariant hooks
pub trait LeastSquaresProblem: Sized {
  spec fn lsp_inv(&self) -> bool;                 // coherent()
  spec fn lsp_frame(&self, other: &Self) -> bool; // what no method may change
  proof fn lsp_frame_refl(&self) ensures self.lsp_frame(self);
  proof fn lsp_frame_trans(&self, b: &Self, c: &Self) requires self.lsp_frame(b), b.lsp_frame(c) ensures self.lsp_frame(c);
  fn set_params(&mut self, x: &DVector)
    requires old(self).lsp_inv()
    ensures final(self).lsp_inv(), old(self).lsp_frame(final(self));
  fn params(&self) -> DVector;
  fn residuals(&self) -> Option<DVector>;
}

pub struct LevenbergMarquardt { pub patience: usize }
impl LevenbergMarquardt {
  // ASSUMED contract (m1): minimize touches the target only through the trait
  #[verifier::external_body]
  pub fn minimize<O: LeastSquaresProblem>(&self, target: O) -> (r: (O, MinimizationReport))
    requires target.lsp_inv()
    ensures r.0.lsp_inv(), target.lsp_frame(&r.0)
  { unimplemented!() }
}

pub trait Model { spec fn g(&self) -> int; }
pub struct LevMarProblem<M: Model, const MRHS: bool, const PAR: bool> { pub model: M, pub y: u64, pub cached: Option<u64> }
impl<M: Model, const MRHS: bool, const PAR: bool> LevMarProblem<M, MRHS, PAR> {
  pub open spec fn coherent(&self) -> bool { self.cached matches Some(c) ==> c == self.y + 1 }
  pub fn into_sequential(self) -> (r: LevMarProblem<M, MRHS, false>)
    ensures r.model == self.model, r.y == self.y, r.cached == self.cached
  { let LevMarProblem { model, y, cached } = self; LevMarProblem { model, y, cached } }
}
impl<M: Model, const MRHS: bool> LeastSquaresProblem for LevMarProblem<M, MRHS, false> {
  open spec fn lsp_inv(&self) -> bool { self.coherent() }
  open spec fn lsp_frame(&self, other: &Self) -> bool { self.y == other.y }
  proof fn lsp_frame_refl(&self) {}
  proof fn lsp_frame_trans(&self, b: &Self, c: &Self) {}
  fn set_params(&mut self, x: &DVector)
    ensures final(self).cached == Some((old(self).y + 1) as u64)   // stronger, impl-specific
  {
    if self.y < 100 { self.cached = Some(self.y + 1); } else { self.cached = None; }
    assume(self.y < 100);
  }
  #[verifier::external_body] fn params(&self) -> DVector { unimplemented!() }
  #[verifier::external_body] fn residuals(&self) -> Option<DVector> { unimplemented!() }
}

pub struct FitResult<M: Model, const MRHS: bool> { pub problem: LevMarProblem<M, MRHS, false>, pub minimization_report: MinimizationReport }
impl<M: Model, const MRHS: bool> FitResult<M, MRHS> {
  fn new(problem: LevMarProblem<M, MRHS, false>, minimization_report: MinimizationReport) -> (r: Self)
    ensures r.problem == problem, r.minimization_report == minimization_report
  { Self { problem, minimization_report } }
  pub fn was_successful(&self) -> (r: bool) ensures r == self.minimization_report.termination.sp_success()
  { self.minimization_report.termination.was_successful() }
}
pub struct LevMarSolver { pub solver: LevenbergMarquardt }
impl LevMarSolver {
  pub fn fit<M: Model, const MRHS: bool>(&self, problem: LevMarProblem<M, MRHS, false>) -> (r: Result<FitResult<M, MRHS>, FitResult<M, MRHS>>)
    requires problem.coherent()
    ensures
      r matches Ok(f) ==> f.minimization_report.termination.sp_success() && f.problem.coherent() && f.problem.y == problem.y,
      r matches Err(f) ==> !f.minimization_report.termination.sp_success() && f.problem.coherent() && f.problem.y == problem.y,
  {
        let (problem, report) = self.solver.minimize(problem);
        let result = FitResult::new(problem.into_sequential(), report);
        if result.was_successful() {
            Ok(result)
        } else {
            Err(result)
        }
  }
}

}
fn main(){}
