use vstd::prelude::*;
verus! {

pub struct MatR { pub r: nat, pub c: nat, pub e: Seq<Seq<real>> }

impl MatR {
  pub open spec fn wf(self) -> bool {
    self.e.len() == self.c && forall |j:int| 0 <= j < self.c ==> (#[trigger] self.e[j]).len() == self.r
  }
  pub open spec fn get(self, i: int, j: int) -> real { self.e[j][i] }
}
pub open spec fn mat_new(r: nat, c: nat, f: spec_fn(int,int)->real) -> MatR {
  MatR { r, c, e: Seq::new(c, |j:int| Seq::new(r, |i:int| f(i,j))) }
}
pub open spec fn sum(n: int, f: spec_fn(int)->real) -> real decreases n {
  if n <= 0 { 0real } else { sum(n-1, f) + f(n-1) }
}
pub open spec fn mmul(a: MatR, b: MatR) -> MatR {
  mat_new(a.r, b.c, |i:int,j:int| sum(a.c as int, |k:int| a.get(i,k) * b.get(k,j)))
}

pub proof fn sum_ext(n: int, f: spec_fn(int)->real, g: spec_fn(int)->real)
  requires forall |k:int| 0 <= k < n ==> #[trigger] f(k) == g(k)
  ensures sum(n, f) == sum(n, g)
  decreases n
{ if n > 0 { sum_ext(n-1, f, g); } }

pub proof fn sum_scale(n: int, f: spec_fn(int)->real, s: real)
  ensures sum(n, |k:int| s * f(k)) == s * sum(n, f)
  decreases n
{
  if n > 0 {
    sum_scale(n-1, f, s);
    assert(s * (sum(n-1,f) + f(n-1)) == s*sum(n-1,f) + s*f(n-1)) by(nonlinear_arith);
  } else {
    assert(s * 0real == 0real) by(nonlinear_arith);
  }
}
pub proof fn sum_add(n: int, f: spec_fn(int)->real, g: spec_fn(int)->real)
  ensures sum(n, |k:int| f(k) + g(k)) == sum(n, f) + sum(n, g)
  decreases n
{ if n > 0 { sum_add(n-1, f, g); } }

pub proof fn sum_zero(n: int)
  ensures sum(n, |k:int| 0real) == 0real
  decreases n
{ if n > 0 { sum_zero(n-1); } }

// Fubini
pub proof fn sum_swap(n: int, m: int, f: spec_fn(int,int)->real)
  ensures sum(n, |k:int| sum(m, |l:int| f(k,l))) == sum(m, |l:int| sum(n, |k:int| f(k,l)))
  decreases n
{
  if n <= 0 {
    sum_zero(m);
    sum_ext(m, |l:int| sum(n, |k:int| f(k,l)), |l:int| 0real);
  } else {
    sum_swap(n-1, m, f);
    // rhs: sum_l ( sum_{k<n-1} f(k,l) + f(n-1,l) )
    let g1 = |l:int| sum(n-1, |k:int| f(k,l));
    let g2 = |l:int| f(n-1, l);
    sum_add(m, g1, g2);
    sum_ext(m, |l:int| sum(n, |k:int| f(k,l)), |l:int| g1(l) + g2(l));
  }
}

pub proof fn mmul_assoc(a: MatR, b: MatR, c: MatR)
  requires a.wf(), b.wf(), c.wf(), a.c == b.r, b.c == c.r
  ensures mmul(mmul(a,b),c) == mmul(a, mmul(b,c))
{
  let l = mmul(mmul(a,b),c);
  let r = mmul(a, mmul(b,c));
  assert(l.e.len() == r.e.len());
  assert forall |j:int| 0 <= j < c.c implies #[trigger] l.e[j] == r.e[j] by {
    assert forall |i:int| 0 <= i < a.r implies #[trigger] l.e[j][i] == r.e[j][i] by {
      let ab = mmul(a,b); let bc = mmul(b,c);
      // l = sum_{l<b.c} ab(i,l) * c(l,j) ; ab(i,l) = sum_{k<a.c} a(i,k) b(k,l)
      let f = |k:int, ll:int| a.get(i,k) * b.get(k,ll) * c.get(ll,j);
      // lhs summand
      let L1 = |ll:int| ab.get(i,ll) * c.get(ll,j); let L2 = |ll:int| sum(a.c as int, |k:int| f(k,ll));
      assert forall |ll:int| 0 <= ll < b.c implies
         #[trigger] L1(ll) == L2(ll) by {
         let h = |k:int| a.get(i,k) * b.get(k,ll);
         sum_scale(a.c as int, h, c.get(ll,j));
         assert(ab.get(i,ll) == sum(a.c as int, h));
         let p = |k:int| c.get(ll,j) * h(k); let q = |k:int| f(k,ll);
         assert forall |k:int| 0 <= k < a.c implies #[trigger] p(k) == q(k) by {
           assert(c.get(ll,j) * (a.get(i,k) * b.get(k,ll)) == a.get(i,k) * b.get(k,ll) * c.get(ll,j)) by(nonlinear_arith);
         }
         sum_ext(a.c as int, p, q);
         assert(ab.get(i,ll) * c.get(ll,j) == c.get(ll,j) * sum(a.c as int, h)) by(nonlinear_arith)
           requires ab.get(i,ll) == sum(a.c as int, h);
      }
      sum_ext(b.c as int, L1, L2);
      // rhs summand
      let R1 = |k:int| a.get(i,k) * bc.get(k,j); let R2 = |k:int| sum(b.c as int, |ll:int| f(k,ll));
      assert forall |k:int| 0 <= k < a.c implies
         #[trigger] R1(k) == R2(k) by {
         let h = |ll:int| b.get(k,ll) * c.get(ll,j);
         sum_scale(b.c as int, h, a.get(i,k));
         assert(bc.get(k,j) == sum(b.c as int, h));
         let p = |ll:int| a.get(i,k) * h(ll); let q = |ll:int| f(k,ll);
         assert forall |ll:int| 0 <= ll < b.c implies #[trigger] p(ll) == q(ll) by {
           assert(a.get(i,k) * (b.get(k,ll) * c.get(ll,j)) == a.get(i,k) * b.get(k,ll) * c.get(ll,j)) by(nonlinear_arith);
         }
         sum_ext(b.c as int, p, q);
      }
      sum_ext(a.c as int, R1, R2);
      sum_swap(a.c as int, b.c as int, f);
    }
    assert(l.e[j] =~= r.e[j]);
  }
  assert(l.e =~= r.e);
}

}
fn main(){}
