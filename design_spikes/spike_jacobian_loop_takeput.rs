use vstd::prelude::*;
verus! {

pub struct MatR { pub r: nat, pub c: nat, pub e: Seq<Seq<real>> }
pub uninterp spec fn mmul(a: MatR, b: MatR) -> MatR;
pub uninterp spec fn msub(a: MatR, b: MatR) -> MatR;
pub uninterp spec fn mtr(a: MatR) -> MatR;
pub uninterp spec fn vecm(a: MatR) -> Seq<real>;

#[verifier::external_body]
pub struct DMatrix { _p: core::marker::PhantomData<u8> }
impl DMatrix {
  pub uninterp spec fn view(&self) -> MatR;
  pub uninterp spec fn initd(&self) -> Set<int>; // initialised columns
  #[verifier::external_body]
  pub fn uninit(r: usize, c: usize) -> (m: DMatrix)
    ensures m@.r == r, m@.c == c, m@.e.len() == c, m.initd() == Set::<int>::empty()
  { unimplemented!() }
  #[verifier::external_body]
  pub fn ncols(&self) -> (n: usize) ensures n == self@.c { unimplemented!() }
  #[verifier::external_body]
  pub fn nrows(&self) -> (n: usize) ensures n == self@.r { unimplemented!() }
  #[verifier::external_body]
  pub fn transpose(&self) -> (m: DMatrix) ensures m@ == mtr(self@) { unimplemented!() }
  // borrow encoding: take column k (as a column view object), put it back
  #[verifier::external_body]
  pub fn __take_column(&mut self, k: usize) -> (c: ColMut)
    requires k < old(self)@.c
    ensures final(self)@ == old(self)@, final(self).initd() == old(self).initd(), c.len() == old(self)@.r, !c.written()
  { unimplemented!() }
  #[verifier::external_body]
  pub fn __put_column(&mut self, k: usize, c: ColMut)
    requires k < old(self)@.c, c.len() == old(self)@.r
    ensures
      final(self)@.r == old(self)@.r, final(self)@.c == old(self)@.c,
      final(self)@.e.len() == old(self)@.e.len(),
      c.written() ==> final(self)@.e == old(self)@.e.update(k as int, c@) && final(self).initd() == old(self).initd().insert(k as int),
      !c.written() ==> final(self)@.e == old(self)@.e && final(self).initd() == old(self).initd(),
  { unimplemented!() }
}
#[verifier::external_body]
pub struct ColMut { _p: core::marker::PhantomData<u8> }
impl ColMut {
  pub uninterp spec fn view(&self) -> Seq<real>;
  pub uninterp spec fn len(&self) -> nat;
  pub uninterp spec fn written(&self) -> bool;
}
#[verifier::external_body]
pub fn copy_matrix_to_column(source: DMatrix, target: &mut ColMut)
  requires source@.r * source@.c == old(target).len()
  ensures final(target)@ == vecm(source@), final(target).written(), final(target).len() == old(target).len()
{ unimplemented!() }
#[verifier::external_body]
pub fn m_mul(a: &DMatrix, b: &DMatrix) -> (r: DMatrix) ensures r@ == mmul(a@, b@) { unimplemented!() }
#[verifier::external_body]
pub fn m_sub(a: DMatrix, b: DMatrix) -> (r: DMatrix) ensures r@ == msub(a@, b@) { unimplemented!() }

pub trait Model {
  type Error;
  spec fn sp_deriv(&self, k: int) -> Option<MatR>;
  spec fn sp_pc(&self) -> nat;
  spec fn sp_len(&self) -> nat;
  fn parameter_count(&self) -> (n: usize) ensures n == self.sp_pc();
  fn output_len(&self) -> (n: usize) ensures n == self.sp_len();
  fn eval_partial_deriv(&self, k: usize) -> (r: Result<DMatrix, Self::Error>)
    ensures r.is_ok() == self.sp_deriv(k as int).is_some(),
      r matches Ok(m) ==> m@ == self.sp_deriv(k as int).unwrap();
}

pub struct Svd { pub u: Option<DMatrix> }
pub struct Cached { pub current_svd: Svd, pub linear_coefficients: DMatrix }
pub struct P<M: Model> { pub model: M, pub cached: Option<Cached>, pub ncols_y: usize }

pub open spec fn jcol(u: MatR, d: MatR, c: MatR) -> Seq<real> {
  vecm(msub(mmul(u, mmul(mtr(u), mmul(d, c))), mmul(d, c)))
}

pub open spec fn col_ok<M: Model>(ji: Set<int>, je: Seq<Seq<real>>, m: &M, u: MatR, c: MatR, q: int) -> bool {
  ji.contains(q) && m.sp_deriv(q).is_some() && je[q] == jcol(u, m.sp_deriv(q).unwrap(), c)
}
impl<M: Model> P<M> {
  fn jacobian(&self) -> (res: Option<DMatrix>)
    requires self.model.sp_len() * self.ncols_y <= usize::MAX,
    ensures res matches Some(j) ==> {
       &&& self.cached.is_some() && self.cached.unwrap().current_svd.u.is_some()
       &&& j@.c == self.model.sp_pc()
       &&& forall |k:int| 0 <= k < j@.c ==> #[trigger] col_ok(j.initd(), j@.e, &self.model, self.cached.unwrap().current_svd.u.unwrap()@, self.cached.unwrap().linear_coefficients@, k)
    }
  {
        if let Some(Cached {
            current_svd,
            linear_coefficients,
        }) = self.cached.as_ref()
        {
            let mut jacobian_matrix = DMatrix::uninit(self.model.output_len() * self.ncols_y, self.model.parameter_count());

            let U = current_svd.u.as_ref()?; // will return None if this was not calculated
            let U_t = U.transpose();

            let mut result: Result<(), M::Error> = Ok(());
            let __n = jacobian_matrix.ncols();
            let mut k: usize = 0;
            while k < __n
              invariant_except_break
                result.is_ok(),
                forall |q:int| 0 <= q < k ==> #[trigger] col_ok(jacobian_matrix.initd(), jacobian_matrix@.e, &self.model, U@, linear_coefficients@, q)
              invariant __n == jacobian_matrix@.c, k <= __n, jacobian_matrix@.e.len() == __n,
                jacobian_matrix@.r == self.model.sp_len() * self.ncols_y,
                __n == self.model.sp_pc(),
                U_t@ == mtr(U@),
              ensures
                result.is_ok() ==> (k == __n && forall |q:int| 0 <= q < __n ==> #[trigger] col_ok(jacobian_matrix.initd(), jacobian_matrix@.e, &self.model, U@, linear_coefficients@, q))
              decreases __n - k
            {
                let mut jacobian_col = jacobian_matrix.__take_column(k);
                let Dk = match self.model.eval_partial_deriv(k) { Ok(v) => v, Err(e) => { result = Err(e); break; } };
                let Dk_C = m_mul(&Dk, linear_coefficients);
                let minus_ak = m_sub(m_mul(U, &m_mul(&U_t, &Dk_C)), Dk_C);
                assume(minus_ak@.r * minus_ak@.c == jacobian_col.len());
                copy_matrix_to_column(minus_ak, &mut jacobian_col);
                let ghost pre = jacobian_matrix;
                jacobian_matrix.__put_column(k, jacobian_col);
                assert forall |q:int| 0 <= q < k + 1 implies #[trigger] col_ok(jacobian_matrix.initd(), jacobian_matrix@.e, &self.model, U@, linear_coefficients@, q) by {
                  if q < k { assert(col_ok(pre.initd(), pre@.e, &self.model, U@, linear_coefficients@, q)); }
                }
                k = k + 1;
            }
            result.ok()?;
            Some(jacobian_matrix)
        } else {
            None
        }
  }
}

}
fn main(){}
