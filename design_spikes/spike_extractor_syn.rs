use quote::ToTokens;
use syn::visit_mut::VisitMut;
use syn::spanned::Spanned;

struct V { log: Vec<String> }
impl VisitMut for V {
    fn visit_expr_mut(&mut self, e: &mut syn::Expr) {
        syn::visit_mut::visit_expr_mut(self, e);
        match e {
            syn::Expr::Binary(b) => {
                let (l, r) = (&b.left, &b.right);
                let line = b.span().start().line;
                let new: Option<syn::Expr> = match b.op {
                    syn::BinOp::Mul(_) => Some(syn::parse_quote!(::core::ops::Mul::mul(#l, #r))),
                    syn::BinOp::Sub(_) => Some(syn::parse_quote!(::core::ops::Sub::sub(#l, #r))),
                    syn::BinOp::Add(_) => Some(syn::parse_quote!(::core::ops::Add::add(#l, #r))),
                    syn::BinOp::Div(_) => Some(syn::parse_quote!(::core::ops::Div::div(#l, #r))),
                    _ => None,
                };
                if let Some(n) = new { self.log.push(format!("X2 line {}", line)); *e = n; }
            }
            syn::Expr::Closure(c) => {
                // X3: tuple-pattern params
                let mut pre: Vec<syn::Stmt> = vec![];
                for (i, p) in c.inputs.iter_mut().enumerate() {
                    if let syn::Pat::Tuple(_) = p {
                        let id = syn::Ident::new(&format!("__p{}", i), proc_macro2::Span::call_site());
                        let pat = p.clone();
                        pre.push(syn::parse_quote!(let #pat = #id;));
                        *p = syn::parse_quote!(#id);
                        self.log.push(format!("X3 line {}", c.or1_token.span().start().line));
                    }
                }
                if !pre.is_empty() {
                    let body = &c.body;
                    let nb: syn::Expr = syn::parse_quote!({ #(#pre)* #body });
                    c.body = Box::new(nb);
                }
            }
            _ => {}
        }
    }
}
fn main() {
    let src = std::fs::read_to_string(std::env::args().nth(1).unwrap()).unwrap();
    let want = std::env::args().nth(2).unwrap();
    let f: syn::File = syn::parse_file(&src).unwrap();
    for item in f.items {
        if let syn::Item::Impl(mut im) = item {
            let hdr = im.self_ty.to_token_stream().to_string();
            let is_par = im.attrs.iter().any(|a| a.to_token_stream().to_string().contains("parallel"));
            for ii in im.items.iter_mut() {
                if let syn::ImplItem::Fn(func) = ii {
                    if func.sig.ident == want && im.trait_.is_some() {
                        let mut v = V { log: vec![] };
                        v.visit_block_mut(&mut func.block);
                        println!("// impl for {} par={} rewrites={:?}", hdr, is_par, v.log);
                        for st in &func.block.stmts {
                            println!("/*L{}*/ {}", st.span().start().line, st.to_token_stream());
                        }
                    }
                }
            }
        }
    }
}
