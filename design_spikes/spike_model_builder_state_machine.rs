use vstd::prelude::*;
verus! {

// ---------- stubs ----------
#[verifier::external_body]
pub struct DVector { _p: core::marker::PhantomData<u8> }
#[verifier::external_body]
pub struct Sc { _p: core::marker::PhantomData<u8> }
#[verifier::external_body]
pub struct BaseFunc { _p: core::marker::PhantomData<u8> }

pub enum ModelBuildError { EmptyModel, EmptyParameters, UnusedParameter { parameter: String }, MissingX, MissingInitialParameters,
   IllegalCallToPartialDeriv, IncorrectParameterCount { expected: usize, actual: usize }, Other }

pub trait BasisFunction<ArgList> { const ARGUMENT_COUNT: usize; }

pub struct ModelBasisFunction { pub function: BaseFunc, pub derivatives: Ghost<Set<int>> /* stand-in for HashMap keys */ }

pub struct ModelBasisFunctionBuilder {
  pub model_parameters: Vec<String>,
  pub function_parameters: Vec<String>,
  pub model_function_result: Result<ModelBasisFunction, ModelBuildError>,
}
impl ModelBasisFunctionBuilder {
  #[verifier::external_body]
  pub fn new<F: BasisFunction<A>, A>(model_parameters: Vec<String>, function_parameters: Vec<String>, function: F) -> (r: Self)
    ensures r.model_parameters == model_parameters
  { unimplemented!() }
  #[verifier::external_body]
  pub fn build(self) -> (r: Result<ModelBasisFunction, ModelBuildError>)
  { unimplemented!() }
}

pub struct UnfinishedModel {
    pub parameter_names: Vec<String>,
    pub basefunctions: Vec<ModelBasisFunction>,
    pub x_vector: Option<DVector>,
    pub initial_parameters: Option<Vec<Sc>>,
}

pub enum SeparableModelBuilder {
    Error(ModelBuildError),
    Normal(UnfinishedModel),
    FunctionBuilding { model: UnfinishedModel, function_builder: ModelBasisFunctionBuilder },
}

pub open spec fn rank(b: SeparableModelBuilder) -> nat {
  match b { SeparableModelBuilder::FunctionBuilding{..} => 1, _ => 0 }
}

fn extend_model(
    mut model: UnfinishedModel,
    function_builder: ModelBasisFunctionBuilder,
) -> (r: Result<UnfinishedModel, ModelBuildError>)
  ensures r matches Ok(m) ==> m.parameter_names == model.parameter_names && m.basefunctions@.len() == model.basefunctions@.len() + 1
       && m.x_vector == model.x_vector && m.initial_parameters == model.initial_parameters
{
    let function = function_builder.build()?;
    model.basefunctions.push(function);
    Ok(model)
}

impl SeparableModelBuilder {
    fn from_res(model_result: Result<UnfinishedModel, ModelBuildError>) -> (r: Self)
      ensures rank(r) == 0,
        model_result matches Ok(m) ==> r == Self::Normal(m),
        model_result matches Err(e) ==> r == Self::Error(e),
    {
        match model_result {
            Ok(model) => Self::Normal(model),
            Err(err) => Self::Error(err),
        }
    }

    pub fn initial_parameters(self, initial_parameters: Vec<Sc>) -> (r: Self)
      ensures
        self matches SeparableModelBuilder::Error(e) ==> r == self,
        self matches SeparableModelBuilder::Normal(m) ==> (
           if m.parameter_names@.len() != initial_parameters@.len() { r matches SeparableModelBuilder::Error(ModelBuildError::IncorrectParameterCount{expected, actual}) && expected == m.parameter_names@.len() && actual == initial_parameters@.len() }
           else { r matches SeparableModelBuilder::Normal(m2) && m2.initial_parameters == Some(initial_parameters) && m2.parameter_names == m.parameter_names && m2.basefunctions == m.basefunctions && m2.x_vector == m.x_vector }),
      decreases rank(self)
    {
        match self {
            SeparableModelBuilder::Error(err) => Self::Error(err),
            SeparableModelBuilder::Normal(mut model) => {
                let expected = model.parameter_names.len();
                if expected != initial_parameters.len() {
                    Self::from_res(Err(ModelBuildError::IncorrectParameterCount {
                        expected,
                        actual: initial_parameters.len(),
                    }))
                } else {
                    model.initial_parameters = Some(initial_parameters);
                    Self::Normal(model)
                }
            }
            SeparableModelBuilder::FunctionBuilding {
                model,
                function_builder,
            } => Self::from_res(extend_model(model, function_builder))
                .initial_parameters(initial_parameters),
        }
    }

    pub fn partial_deriv_state(self) -> (r: Self)
      ensures self matches SeparableModelBuilder::Normal(m) ==> r matches SeparableModelBuilder::Error(ModelBuildError::IllegalCallToPartialDeriv)
    {
        match self {
            SeparableModelBuilder::Error(err) => Self::Error(err),
            SeparableModelBuilder::Normal(_model) => {
                Self::from_res(Err(ModelBuildError::IllegalCallToPartialDeriv))
            }
            SeparableModelBuilder::FunctionBuilding { model, function_builder } => Self::FunctionBuilding { model, function_builder },
        }
    }
}

}
fn main(){}
