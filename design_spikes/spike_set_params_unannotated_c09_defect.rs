use vstd::prelude::*;
verus! {

pub ghost struct MatR { pub rows: nat, pub cols: nat, pub e: spec_fn(int,int) -> real }
pub uninterp spec fn mmul(a: MatR, b: MatR) -> MatR;
pub uninterp spec fn msub(a: MatR, b: MatR) -> MatR;
pub uninterp spec fn wmul(w: WeightsR, b: MatR) -> MatR;
pub uninterp spec fn pinv_solve(a: MatR, b: MatR, eps: real) -> MatR;
pub ghost enum WeightsR { Unit, Diag(Seq<real>) }

#[verifier::external_body]
pub struct DMatrix { _p: core::marker::PhantomData<u8> }
impl View for DMatrix { type V = MatR; uninterp spec fn view(&self) -> MatR; }
#[verifier::external_body]
pub struct DVector { _p: core::marker::PhantomData<u8> }
impl View for DVector { type V = Seq<real>; uninterp spec fn view(&self) -> Seq<real>; }

#[verifier::external_body]
pub struct Scalar { _p: core::marker::PhantomData<u8> }
impl View for Scalar { type V = real; uninterp spec fn view(&self) -> real; }
impl Clone for Scalar { #[verifier::external_body] fn clone(&self) -> (r: Self) ensures r@ == self@ { unimplemented!() } }
impl Copy for Scalar {}

#[verifier::external_body]
pub struct Weights { _p: core::marker::PhantomData<u8> }
impl View for Weights { type V = WeightsR; uninterp spec fn view(&self) -> WeightsR; }

#[verifier::external_body]
pub struct SVD { _p: core::marker::PhantomData<u8> }
impl SVD {
  pub uninterp spec fn of(&self) -> MatR;   // the matrix it decomposes
  #[verifier::external_body]
  pub fn solve(&self, b: &DMatrix, eps: Scalar) -> (r: Result<DMatrix, &'static str>)
    ensures eps@ >= 0real ==> r.is_ok() && r.unwrap()@ == pinv_solve(self.of(), b@, eps@)
  { unimplemented!() }
}
impl DMatrix {
  #[verifier::external_body]
  pub fn svd(self, cu: bool, cv: bool) -> (r: SVD)
    ensures r.of() == self@
  { unimplemented!() }
}
impl Clone for DMatrix { #[verifier::external_body] fn clone(&self) -> (r: Self) ensures r@ == self@ { unimplemented!() } }
impl Clone for DVector { #[verifier::external_body] fn clone(&self) -> (r: Self) ensures r@ == self@ { unimplemented!() } }

#[verifier::external_body]
pub fn w_mul(w: &Weights, m: DMatrix) -> (r: DMatrix) ensures r@ == wmul(w@, m@) { unimplemented!() }
#[verifier::external_body]
pub fn m_mul(a: &DMatrix, b: &DMatrix) -> (r: DMatrix) ensures r@ == mmul(a@, b@) { unimplemented!() }
#[verifier::external_body]
pub fn m_sub(a: &DMatrix, b: DMatrix) -> (r: DMatrix) ensures r@ == msub(a@, b@) { unimplemented!() }

pub assume_specification<T, U> [core::option::Option::<T>::zip] (a: Option<T>, b: Option<U>) -> (r: Option<(T, U)>)
  where T: core::marker::Destruct, U: core::marker::Destruct
  ensures r == (match (a, b) { (Some(x), Some(y)) => Some((x, y)), _ => None });

pub trait SeparableNonlinearModel {
  type Error;
  spec fn sp_params(&self) -> Seq<real>;
  spec fn sp_eval(&self, p: Seq<real>) -> Option<MatR>;
  fn set_params(&mut self, parameters: DVector) -> (r: Result<(), Self::Error>)
    ensures r.is_ok() ==> final(self).sp_params() == parameters@,
            r.is_err() ==> final(self).sp_params() == old(self).sp_params(),
            forall |p: Seq<real>| final(self).sp_eval(p) == old(self).sp_eval(p);
  fn params(&self) -> (r: DVector) ensures r@ == self.sp_params();
  fn eval(&self) -> (r: Result<DMatrix, Self::Error>)
    ensures r.is_ok() == self.sp_eval(self.sp_params()).is_some(),
            r matches Ok(m) ==> m@ == self.sp_eval(self.sp_params()).unwrap();
}

pub struct CachedCalculations {
  pub current_residuals: DMatrix,
  pub current_svd: SVD,
  pub linear_coefficients: DMatrix,
}

pub struct LevMarProblem<Model: SeparableNonlinearModel> {
  pub Y_w: DMatrix,
  pub model: Model,
  pub svd_epsilon: Scalar,
  pub weights: Weights,
  pub cached: Option<CachedCalculations>,
}

impl<Model: SeparableNonlinearModel> LevMarProblem<Model> {
  fn set_params(&mut self, params: &DVector)
    requires old(self).svd_epsilon@ >= 0real
    ensures
      final(self).cached.is_some() ==> final(self).model.sp_params() == params@,
  {
        if self.model.set_params(params.clone()).is_err() {
            self.cached = None;
        }
        // matrix of weighted model function values
        let Phi_w = self.model.eval().ok().map(|Phi| w_mul(&self.weights, Phi));

        // calculate the svd
        let svd_epsilon = self.svd_epsilon;
        let current_svd = Phi_w.as_ref().map(|Phi_w| Phi_w.clone().svd(true, true));
        let linear_coefficients = current_svd
            .as_ref()
            .and_then(|svd| svd.solve(&self.Y_w, svd_epsilon).ok());

        // calculate the residuals
        let current_residuals = Phi_w
            .zip(linear_coefficients.as_ref())
            .map(|__p| { let (Phi_w, coeff) = __p; m_sub(&self.Y_w, m_mul(&Phi_w, coeff)) });

        // if everything was successful, update the cached calculations, otherwise set the cache to none
        if let (Some(current_residuals), Some(current_svd), Some(linear_coefficients)) =
            (current_residuals, current_svd, linear_coefficients)
        {
            self.cached = Some(CachedCalculations {
                current_residuals,
                current_svd,
                linear_coefficients,
            })
        } else {
            self.cached = None;
        }
  }
}

}
fn main(){}
