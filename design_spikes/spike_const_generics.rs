use vstd::prelude::*;
verus! {
pub trait M { spec fn g(&self) -> int; fn f(&self) -> (r: u8) ensures r as int == self.g() % 256; }
pub struct P<Mo: M, const MRHS: bool, const PAR: bool> { pub m: Mo, pub n: usize }
impl<Mo: M, const PAR: bool> P<Mo, true, PAR> {
  pub fn cols(&self) -> (r: usize) ensures r == self.n { self.n }
}
impl<Mo: M, const PAR: bool> P<Mo, false, PAR> {
  pub fn cols(&self) -> (r: usize) ensures r == 1 { 1 }
}
impl<Mo: M, const MRHS: bool, const PAR: bool> P<Mo, MRHS, PAR> {
  pub fn into_sequential(self) -> (r: P<Mo, MRHS, false>) ensures r.m == self.m, r.n == self.n {
    let P { m, n } = self;
    P { m, n }
  }
}
pub const PARALLEL_NO: bool = false;
pub trait LSP { fn sp(&mut self, p: u8); }
impl<Mo: M, const MRHS: bool> LSP for P<Mo, MRHS, PARALLEL_NO> {
  fn sp(&mut self, p: u8) { }
}
}
fn main(){}
