use vstd::prelude::*;
verus! {

pub struct MatR { pub r: nat, pub c: nat, pub e: Seq<Seq<real>> }

impl MatR {
  pub open spec fn wf(self) -> bool {
    self.e.len() == self.c && forall |j:int| 0 <= j < self.c ==> (#[trigger] self.e[j]).len() == self.r
  }
  pub open spec fn get(self, i: int, j: int) -> real { self.e[j][i] }
}
pub open spec fn mat_new(r: nat, c: nat, f: spec_fn(int,int)->real) -> MatR {
  MatR { r, c, e: Seq::new(c, |j:int| Seq::new(r, |i:int| f(i,j))) }
}
pub open spec fn sum(n: int, f: spec_fn(int)->real) -> real decreases n {
  if n <= 0 { 0real } else { sum(n-1, f) + f(n-1) }
}
pub open spec fn mmul(a: MatR, b: MatR) -> MatR {
  mat_new(a.r, b.c, |i:int,j:int| sum(a.c as int, |k:int| a.get(i,k) * b.get(k,j)))
}

pub proof fn sum_ext(n: int, f: spec_fn(int)->real, g: spec_fn(int)->real)
  requires forall |k:int| 0 <= k < n ==> #[trigger] f(k) == g(k)
  ensures sum(n, f) == sum(n, g)
  decreases n
{ if n > 0 { sum_ext(n-1, f, g); } }

pub proof fn sum_scale(n: int, f: spec_fn(int)->real, s: real)
  ensures sum(n, |k:int| s * f(k)) == s * sum(n, f)
  decreases n
{
  if n > 0 {
    sum_scale(n-1, f, s);
    assert(s * (sum(n-1,f) + f(n-1)) == s*sum(n-1,f) + s*f(n-1)) by(nonlinear_arith);
  } else {
    assert(s * 0real == 0real) by(nonlinear_arith);
  }
}
pub proof fn sum_add(n: int, f: spec_fn(int)->real, g: spec_fn(int)->real)
  ensures sum(n, |k:int| f(k) + g(k)) == sum(n, f) + sum(n, g)
  decreases n
{ if n > 0 { sum_add(n-1, f, g); } }

pub proof fn sum_zero(n: int)
  ensures sum(n, |k:int| 0real) == 0real
  decreases n
{ if n > 0 { sum_zero(n-1); } }

// Fubini
pub proof fn sum_swap(n: int, m: int, f: spec_fn(int,int)->real)
  ensures sum(n, |k:int| sum(m, |l:int| f(k,l))) == sum(m, |l:int| sum(n, |k:int| f(k,l)))
  decreases n
{
  if n <= 0 {
    sum_zero(m);
    sum_ext(m, |l:int| sum(n, |k:int| f(k,l)), |l:int| 0real);
  } else {
    sum_swap(n-1, m, f);
    // rhs: sum_l ( sum_{k<n-1} f(k,l) + f(n-1,l) )
    let g1 = |l:int| sum(n-1, |k:int| f(k,l));
    let g2 = |l:int| f(n-1, l);
    sum_add(m, g1, g2);
    sum_ext(m, |l:int| sum(n, |k:int| f(k,l)), |l:int| g1(l) + g2(l));
  }
}

pub proof fn mmul_assoc(a: MatR, b: MatR, c: MatR)
  requires a.wf(), b.wf(), c.wf(), a.c == b.r, b.c == c.r
  ensures mmul(mmul(a,b),c) == mmul(a, mmul(b,c))
{
  let l = mmul(mmul(a,b),c);
  let r = mmul(a, mmul(b,c));
  assert(l.e.len() == r.e.len());
  assert forall |j:int| 0 <= j < c.c implies #[trigger] l.e[j] == r.e[j] by {
    assert forall |i:int| 0 <= i < a.r implies #[trigger] l.e[j][i] == r.e[j][i] by {
      let ab = mmul(a,b); let bc = mmul(b,c);
      // l = sum_{l<b.c} ab(i,l) * c(l,j) ; ab(i,l) = sum_{k<a.c} a(i,k) b(k,l)
      let f = |k:int, ll:int| a.get(i,k) * b.get(k,ll) * c.get(ll,j);
      // lhs summand
      let L1 = |ll:int| ab.get(i,ll) * c.get(ll,j); let L2 = |ll:int| sum(a.c as int, |k:int| f(k,ll));
      assert forall |ll:int| 0 <= ll < b.c implies
         #[trigger] L1(ll) == L2(ll) by {
         let h = |k:int| a.get(i,k) * b.get(k,ll);
         sum_scale(a.c as int, h, c.get(ll,j));
         assert(ab.get(i,ll) == sum(a.c as int, h));
         let p = |k:int| c.get(ll,j) * h(k); let q = |k:int| f(k,ll);
         assert forall |k:int| 0 <= k < a.c implies #[trigger] p(k) == q(k) by {
           assert(c.get(ll,j) * (a.get(i,k) * b.get(k,ll)) == a.get(i,k) * b.get(k,ll) * c.get(ll,j)) by(nonlinear_arith);
         }
         sum_ext(a.c as int, p, q);
         assert(ab.get(i,ll) * c.get(ll,j) == c.get(ll,j) * sum(a.c as int, h)) by(nonlinear_arith)
           requires ab.get(i,ll) == sum(a.c as int, h);
      }
      sum_ext(b.c as int, L1, L2);
      // rhs summand
      let R1 = |k:int| a.get(i,k) * bc.get(k,j); let R2 = |k:int| sum(b.c as int, |ll:int| f(k,ll));
      assert forall |k:int| 0 <= k < a.c implies
         #[trigger] R1(k) == R2(k) by {
         let h = |ll:int| b.get(k,ll) * c.get(ll,j);
         sum_scale(b.c as int, h, a.get(i,k));
         assert(bc.get(k,j) == sum(b.c as int, h));
         let p = |ll:int| a.get(i,k) * h(ll); let q = |ll:int| f(k,ll);
         assert forall |ll:int| 0 <= ll < b.c implies #[trigger] p(ll) == q(ll) by {
           assert(a.get(i,k) * (b.get(k,ll) * c.get(ll,j)) == a.get(i,k) * b.get(k,ll) * c.get(ll,j)) by(nonlinear_arith);
         }
         sum_ext(b.c as int, p, q);
      }
      sum_ext(a.c as int, R1, R2);
      sum_swap(a.c as int, b.c as int, f);
    }
    assert(l.e[j] =~= r.e[j]);
  }
  assert(l.e =~= r.e);
}


pub open spec fn mtr(a: MatR) -> MatR { mat_new(a.c, a.r, |i:int,j:int| a.get(j,i)) }
pub open spec fn msub(a: MatR, b: MatR) -> MatR { mat_new(a.r, a.c, |i:int,j:int| a.get(i,j) - b.get(i,j)) }
pub open spec fn frob2(a: MatR) -> real { sum(a.c as int, |j:int| sum(a.r as int, |i:int| a.get(i,j)*a.get(i,j))) }
pub open spec fn is_zero(a: MatR) -> bool { forall |i:int,j:int| 0 <= i < a.r && 0 <= j < a.c ==> #[trigger] a.get(i,j) == 0real }

pub proof fn sum_nonneg(n: int, f: spec_fn(int)->real)
  requires forall |k:int| 0 <= k < n ==> #[trigger] f(k) >= 0real
  ensures sum(n, f) >= 0real
  decreases n
{ if n > 0 { sum_nonneg(n-1, f); } }

pub proof fn sum_sub(n: int, f: spec_fn(int)->real, g: spec_fn(int)->real)
  ensures sum(n, |k:int| f(k) - g(k)) == sum(n, f) - sum(n, g)
  decreases n
{ if n > 0 { sum_sub(n-1, f, g); } }

pub proof fn sum_all_zero(n: int, f: spec_fn(int)->real)
  requires forall |k:int| 0 <= k < n ==> #[trigger] f(k) == 0real
  ensures sum(n, f) == 0real
  decreases n
{ if n > 0 { sum_all_zero(n-1, f); } }

// single-column least squares: normal equations imply minimality
pub proof fn ls_min_col(a: MatR, b: MatR, x: MatR, z: MatR)
  requires a.wf(), b.wf(), x.wf(), z.wf(), b.c == 1, x.c == 1, z.c == 1, b.r == a.r, x.r == a.c, z.r == a.c,
           is_zero(mmul(mtr(a), msub(b, mmul(a, x)))),
  ensures frob2(msub(b, mmul(a, x))) <= frob2(msub(b, mmul(a, z)))
{
  let n = a.r as int; let m = a.c as int;
  let rho = |i:int| b.get(i,0) - sum(m, |k:int| a.get(i,k) * x.get(k,0));
  let d = |k:int| x.get(k,0) - z.get(k,0);
  let w = |i:int| sum(m, |k:int| a.get(i,k) * d(k));
  let rx = msub(b, mmul(a, x)); let rz = msub(b, mmul(a, z));
  // entries
  assert forall |i:int| 0 <= i < n implies #[trigger] rx.get(i,0) == rho(i) by {}
  assert forall |i:int| 0 <= i < n implies #[trigger] rz.get(i,0) == rho(i) + w(i) by {
    let fx = |k:int| a.get(i,k) * x.get(k,0);
    let fz = |k:int| a.get(i,k) * z.get(k,0);
    let fd = |k:int| a.get(i,k) * d(k);
    sum_sub(m, fx, fz);
    let fxz = |k:int| fx(k) - fz(k);
    assert forall |k:int| 0 <= k < m implies #[trigger] fxz(k) == fd(k) by {
      assert(a.get(i,k) * x.get(k,0) - a.get(i,k) * z.get(k,0) == a.get(i,k) * (x.get(k,0) - z.get(k,0))) by(nonlinear_arith);
    }
    sum_ext(m, fxz, fd);
    assert(rz.get(i,0) == b.get(i,0) - sum(m, fz));
  }
  // frob2 as single sums
  let sq_x = |i:int| rho(i)*rho(i);
  let sq_z = |i:int| (rho(i)+w(i))*(rho(i)+w(i));
  let cross = |i:int| rho(i)*w(i);
  let sq_w = |i:int| w(i)*w(i);
  assert(frob2(rx) == sum(n, sq_x)) by {
    let inner = |i:int| rx.get(i,0)*rx.get(i,0);
    sum_ext(n, inner, sq_x);
    assert(rx.c == 1);
    reveal_with_fuel(sum, 2);
    let outer = |j:int| sum(rx.r as int, |i:int| rx.get(i,j)*rx.get(i,j));
    assert(sum(1, outer) == sum(0, outer) + outer(0));
    assert(outer(0) == sum(n, |i:int| rx.get(i,0)*rx.get(i,0)));
    sum_ext(n, |i:int| rx.get(i,0)*rx.get(i,0), inner);
  }
  assert(frob2(rz) == sum(n, sq_z)) by {
    let inner = |i:int| rz.get(i,0)*rz.get(i,0);
    sum_ext(n, inner, sq_z);
    reveal_with_fuel(sum, 2);
    let outer = |j:int| sum(rz.r as int, |i:int| rz.get(i,j)*rz.get(i,j));
    assert(sum(1, outer) == sum(0, outer) + outer(0));
    sum_ext(n, |i:int| rz.get(i,0)*rz.get(i,0), inner);
  }
  // expand square
  let two_cross = |i:int| 2real * cross(i);
  let s1 = |i:int| sq_x(i) + two_cross(i);
  let s2 = |i:int| s1(i) + sq_w(i);
  assert forall |i:int| 0 <= i < n implies #[trigger] sq_z(i) == s2(i) by {
    assert((rho(i)+w(i))*(rho(i)+w(i)) == rho(i)*rho(i) + 2real*(rho(i)*w(i)) + w(i)*w(i)) by(nonlinear_arith);
  }
  sum_ext(n, sq_z, s2);
  sum_add(n, s1, sq_w);
  sum_add(n, sq_x, two_cross);
  sum_scale(n, cross, 2real);
  // cross term is zero: sum_i rho_i sum_k a_ik d_k = sum_k d_k sum_i a_ik rho_i
  let f2 = |i:int, k:int| rho(i) * a.get(i,k) * d(k);
  let c1 = |i:int| sum(m, |k:int| f2(i,k));
  assert forall |i:int| 0 <= i < n implies #[trigger] cross(i) == c1(i) by {
    let h = |k:int| a.get(i,k) * d(k);
    sum_scale(m, h, rho(i));
    let p = |k:int| rho(i) * h(k); let q = |k:int| f2(i,k);
    assert forall |k:int| 0 <= k < m implies #[trigger] p(k) == q(k) by {
      assert(rho(i) * (a.get(i,k) * d(k)) == rho(i) * a.get(i,k) * d(k)) by(nonlinear_arith);
    }
    sum_ext(m, p, q);
  }
  sum_ext(n, cross, c1);
  sum_swap(n, m, f2);
  let c2 = |k:int| sum(n, |i:int| f2(i,k));
  let atr = mmul(mtr(a), rx);
  assert forall |k:int| 0 <= k < m implies #[trigger] c2(k) == 0real by {
    // (A^T rho)_k = sum_i a_ik rho_i = 0
    let g = |i:int| a.get(i,k) * rho(i);
    assert(atr.get(k,0) == 0real);
    let g0 = |i:int| mtr(a).get(k,i) * rx.get(i,0);
    assert(atr.get(k,0) == sum(n, g0));
    sum_ext(n, g0, g);
    sum_scale(n, g, d(k));
    let p = |i:int| d(k) * g(i); let q = |i:int| f2(i,k);
    assert forall |i:int| 0 <= i < n implies #[trigger] p(i) == q(i) by {
      assert(d(k) * (a.get(i,k) * rho(i)) == rho(i) * a.get(i,k) * d(k)) by(nonlinear_arith);
    }
    sum_ext(n, p, q);
    assert(d(k) * 0real == 0real) by(nonlinear_arith);
  }
  sum_all_zero(m, c2);
  assert(2real * 0real == 0real) by(nonlinear_arith);
  // squares nonneg
  assert forall |i:int| 0 <= i < n implies #[trigger] sq_w(i) >= 0real by {
    assert(w(i)*w(i) >= 0real) by(nonlinear_arith);
  }
  sum_nonneg(n, sq_w);
}


// ---- from spike_ls_normal_equations_from_svd.rs
pub open spec fn ident(n: nat) -> MatR { mat_new(n, n, |i:int,j:int| if i == j { 1real } else { 0real }) }
pub open spec fn diagm(s: Seq<real>) -> MatR { mat_new(s.len(), s.len(), |i:int,j:int| if i == j { s[i] } else { 0real }) }
pub open spec fn smul(s: Seq<real>, t: Seq<real>) -> Seq<real> { Seq::new(s.len(), |i:int| s[i]*t[i]) }
pub open spec fn pinv_diag(s: Seq<real>, eps: real) -> Seq<real> { Seq::new(s.len(), |i:int| if s[i] > eps { 1real / s[i] } else { 0real }) }
pub open spec fn trunc(s: Seq<real>, eps: real) -> Seq<real> { Seq::new(s.len(), |i:int| if s[i] > eps { s[i] } else { 0real }) }

pub proof fn mat_new_wf(r: nat, c: nat, f: spec_fn(int,int)->real)
  ensures mat_new(r,c,f).wf(), mat_new(r,c,f).r == r, mat_new(r,c,f).c == c,
    forall |i:int,j:int| 0 <= i < r && 0 <= j < c ==> #[trigger] mat_new(r,c,f).get(i,j) == f(i,j)
{}

pub proof fn mat_ext(a: MatR, b: MatR)
  requires a.wf(), b.wf(), a.r == b.r, a.c == b.c,
    forall |i:int,j:int| 0 <= i < a.r && 0 <= j < a.c ==> #[trigger] a.get(i,j) == b.get(i,j)
  ensures a == b
{
  assert forall |j:int| 0 <= j < a.c implies #[trigger] a.e[j] == b.e[j] by {
    assert forall |i:int| 0 <= i < a.r implies #[trigger] a.e[j][i] == b.e[j][i] by { assert(a.get(i,j) == b.get(i,j)); }
    assert(a.e[j] =~= b.e[j]);
  }
  assert(a.e =~= b.e);
}

// sum with a single nonzero term
pub proof fn sum_single(n: int, f: spec_fn(int)->real, k0: int)
  requires 0 <= k0 < n, forall |k:int| 0 <= k < n && k != k0 ==> #[trigger] f(k) == 0real
  ensures sum(n, f) == f(k0)
  decreases n
{
  if n - 1 == k0 { sum_all_zero(n-1, f); } else { sum_single(n-1, f, k0); }
}

pub proof fn mtr_mmul(a: MatR, b: MatR)
  requires a.wf(), b.wf(), a.c == b.r
  ensures mtr(mmul(a,b)) == mmul(mtr(b), mtr(a))
{
  let l = mtr(mmul(a,b)); let r = mmul(mtr(b), mtr(a));
  assert forall |i:int,j:int| 0 <= i < l.r && 0 <= j < l.c implies #[trigger] l.get(i,j) == r.get(i,j) by {
    let f = |k:int| a.get(j,k) * b.get(k,i);
    let g = |k:int| mtr(b).get(i,k) * mtr(a).get(k,j);
    assert forall |k:int| 0 <= k < a.c implies #[trigger] f(k) == g(k) by {
      assert(a.get(j,k) * b.get(k,i) == b.get(k,i) * a.get(j,k)) by(nonlinear_arith);
    }
    sum_ext(a.c as int, f, g);
  }
  mat_ext(l, r);
}

pub proof fn mtr_diagm(s: Seq<real>) ensures mtr(diagm(s)) == diagm(s)
{ mat_ext(mtr(diagm(s)), diagm(s)); }

pub proof fn mtr_mtr(a: MatR) requires a.wf() ensures mtr(mtr(a)) == a
{ mat_ext(mtr(mtr(a)), a); }

// D(s) * M scales row i by s[i];  M * D(s) scales column j by s[j]
pub proof fn diagm_mul_l(s: Seq<real>, m: MatR)
  requires m.wf(), m.r == s.len()
  ensures mmul(diagm(s), m) == mat_new(m.r, m.c, |i:int,j:int| s[i] * m.get(i,j))
{
  let l = mmul(diagm(s), m); let r = mat_new(m.r, m.c, |i:int,j:int| s[i] * m.get(i,j));
  assert forall |i:int,j:int| 0 <= i < l.r && 0 <= j < l.c implies #[trigger] l.get(i,j) == r.get(i,j) by {
    let f = |k:int| diagm(s).get(i,k) * m.get(k,j);
    assert forall |k:int| 0 <= k < s.len() && k != i implies #[trigger] f(k) == 0real by {
      assert(0real * m.get(k,j) == 0real) by(nonlinear_arith);
    }
    sum_single(s.len() as int, f, i);
  }
  mat_ext(l, r);
}

pub proof fn diagm_mul(s: Seq<real>, t: Seq<real>)
  requires s.len() == t.len()
  ensures mmul(diagm(s), diagm(t)) == diagm(smul(s,t))
{
  diagm_mul_l(s, diagm(t));
  let l = mmul(diagm(s), diagm(t)); let r = diagm(smul(s,t));
  assert forall |i:int,j:int| 0 <= i < l.r && 0 <= j < l.c implies #[trigger] l.get(i,j) == r.get(i,j) by {
    assert(s[i] * 0real == 0real) by(nonlinear_arith);
  }
  mat_ext(l, r);
}

pub proof fn mmul_ident_l(a: MatR) requires a.wf() ensures mmul(ident(a.r), a) == a
{
  let l = mmul(ident(a.r), a);
  assert forall |i:int,j:int| 0 <= i < l.r && 0 <= j < l.c implies #[trigger] l.get(i,j) == a.get(i,j) by {
    let f = |k:int| ident(a.r).get(i,k) * a.get(k,j);
    assert forall |k:int| 0 <= k < a.r && k != i implies #[trigger] f(k) == 0real by {
      assert(0real * a.get(k,j) == 0real) by(nonlinear_arith);
    }
    sum_single(a.r as int, f, i);
    assert(1real * a.get(i,j) == a.get(i,j)) by(nonlinear_arith);
  }
  mat_ext(l, a);
}

pub proof fn mmul_msub_r(a: MatR, b: MatR, c: MatR)
  requires a.wf(), b.wf(), c.wf(), a.c == b.r, b.r == c.r, b.c == c.c
  ensures mmul(a, msub(b,c)) == msub(mmul(a,b), mmul(a,c))
{
  let l = mmul(a, msub(b,c)); let r = msub(mmul(a,b), mmul(a,c));
  assert forall |i:int,j:int| 0 <= i < l.r && 0 <= j < l.c implies #[trigger] l.get(i,j) == r.get(i,j) by {
    let fb = |k:int| a.get(i,k) * b.get(k,j);
    let fc = |k:int| a.get(i,k) * c.get(k,j);
    let fd = |k:int| a.get(i,k) * msub(b,c).get(k,j);
    let fbc = |k:int| fb(k) - fc(k);
    sum_sub(a.c as int, fb, fc);
    assert forall |k:int| 0 <= k < a.c implies #[trigger] fd(k) == fbc(k) by {
      assert(a.get(i,k) * (b.get(k,j) - c.get(k,j)) == a.get(i,k) * b.get(k,j) - a.get(i,k) * c.get(k,j)) by(nonlinear_arith);
    }
    sum_ext(a.c as int, fd, fbc);
  }
  mat_ext(l, r);
}

pub proof fn trunc_pinv(s: Seq<real>, eps: real)
  requires eps >= 0real
  ensures smul(trunc(s,eps), smul(trunc(s,eps), pinv_diag(s,eps))) == trunc(s,eps)
{
  let l = smul(trunc(s,eps), smul(trunc(s,eps), pinv_diag(s,eps)));
  assert forall |i:int| 0 <= i < s.len() implies #[trigger] l[i] == trunc(s,eps)[i] by {
    if s[i] > eps {
      assert(s[i] * (s[i] * (1real / s[i])) == s[i]) by(nonlinear_arith) requires s[i] > 0real;
    } else {
      assert(0real * (0real * 0real) == 0real) by(nonlinear_arith);
    }
  }
  assert(l =~= trunc(s,eps));
}

// the truncated normal equations hold for the literal nalgebra solve formula
pub proof fn ls_normal(u: MatR, s: Seq<real>, vt: MatR, b: MatR, eps: real)
  requires u.wf(), vt.wf(), b.wf(), u.c == s.len(), vt.r == s.len(), b.r == u.r, eps >= 0real,
           mmul(mtr(u), u) == ident(s.len()), mmul(vt, mtr(vt)) == ident(s.len()),
  ensures ({
     let ae = mmul(mmul(u, diagm(trunc(s,eps))), vt);
     let x = mmul(mtr(vt), mmul(diagm(pinv_diag(s,eps)), mmul(mtr(u), b)));
     is_zero(mmul(mtr(ae), msub(b, mmul(ae, x))))
  })
{
  let k = s.len();
  let st = diagm(trunc(s,eps)); let sp = diagm(pinv_diag(s,eps));
  let ut = mtr(u); let v = mtr(vt);
  let utb = mmul(ut, b);
  let ae = mmul(mmul(u, st), vt);
  let x = mmul(v, mmul(sp, utb));
  // ae^T = v (st ut)
  mtr_mmul(mmul(u, st), vt); mtr_mmul(u, st); mtr_diagm(trunc(s,eps));
  let aet = mmul(v, mmul(st, ut));
  assert(mtr(ae) == aet);
  // ae x = (u st) (vt v) (sp utb) = (u st)(sp utb)
  mmul_assoc(mmul(u, st), vt, x);          // (u st) vt x == (u st)(vt x)
  mmul_assoc(vt, v, mmul(sp, utb));        // (vt v)(sp utb) == vt (v (sp utb))
  mmul_ident_l(mmul(sp, utb));
  assert(mmul(vt, x) == mmul(sp, utb));
  assert(mmul(ae, x) == mmul(mmul(u, st), mmul(sp, utb)));
  // aet (ae x) = v (st ut) (u st) (sp utb) = v (st (st (sp utb)))
  let w = mmul(sp, utb);
  let aex = mmul(mmul(u, st), w);
  mmul_assoc(u, st, w);                    // (u st) w == u (st w)
  let stw = mmul(st, w);
  assert(aex == mmul(u, stw));
  mmul_assoc(v, mmul(st, ut), aex);        // (v (st ut)) aex == v ((st ut) aex)
  mmul_assoc(st, ut, mmul(u, stw));        // (st ut)(u stw) == st (ut (u stw))
  mmul_assoc(ut, u, stw);                  // (ut u) stw == ut (u stw)
  mmul_ident_l(stw);
  assert(mmul(ut, mmul(u, stw)) == stw);
  assert(mmul(aet, aex) == mmul(v, mmul(st, stw)));
  // st (st (sp utb)) = (st st sp) utb = st utb
  mmul_assoc(st, sp, utb);                 // (st sp) utb == st (sp utb) = stw
  mmul_assoc(st, mmul(st, sp), utb);       // (st (st sp)) utb == st ((st sp) utb)
  diagm_mul(trunc(s,eps), pinv_diag(s,eps));
  diagm_mul(trunc(s,eps), smul(trunc(s,eps), pinv_diag(s,eps)));
  trunc_pinv(s, eps);
  assert(mmul(st, mmul(st, sp)) == st);
  assert(mmul(st, stw) == mmul(st, utb));
  // aet b = v (st ut) b = v (st (ut b))
  mmul_assoc(v, mmul(st, ut), b);
  mmul_assoc(st, ut, b);
  assert(mmul(aet, b) == mmul(v, mmul(st, utb)));
  assert(mmul(aet, aex) == mmul(aet, b));
  // distribute
  mmul_msub_r(aet, b, mmul(ae, x));
  let z = msub(mmul(aet, b), mmul(aet, aex));
  assert forall |i:int,j:int| 0 <= i < z.r && 0 <= j < z.c implies #[trigger] z.get(i,j) == 0real by {}
}


// ---- further specification vocabulary (DESIGN.md section 3)
pub open spec fn madd(a: MatR, b: MatR) -> MatR { mat_new(a.r, a.c, |i:int,j:int| a.get(i,j) + b.get(i,j)) }
pub open spec fn scale(a: MatR, t: real) -> MatR { mat_new(a.r, a.c, |i:int,j:int| t * a.get(i,j)) }
pub open spec fn zeros(r: nat, c: nat) -> MatR { mat_new(r, c, |i:int,j:int| 0real) }
pub open spec fn col(a: MatR, s: int) -> MatR { mat_new(a.r, 1, |i:int,j:int| a.get(i,s)) }
pub open spec fn row_t(a: MatR, i0: int) -> MatR { mat_new(a.c, 1, |i:int,j:int| a.get(i0,i)) }
pub open spec fn hcat(a: MatR, b: MatR) -> MatR {
  mat_new(a.r, a.c + b.c, |i:int,j:int| if j < a.c { a.get(i,j) } else { b.get(i, j - a.c) })
}
/// column stacking (what `to_vector` must produce): element (i,j) lands at row j*r + i of an (r*c) x 1 matrix
pub open spec fn vecm(a: MatR) -> MatR {
  mat_new(a.r * a.c, 1, |t:int,j:int| if a.r == 0 { 0real } else { a.get(t % (a.r as int), t / (a.r as int)) })
}
pub open spec fn symmetric(a: MatR) -> bool { a.r == a.c && mtr(a) == a }
pub open spec fn dot(a: MatR, b: MatR) -> real { sum(a.r as int, |i:int| a.get(i,0) * b.get(i,0)) }

pub enum WeightsR { Unit, Diag(Seq<real>) }
/// row scaling; `Unit` is the identity (C06)
pub open spec fn wmul(w: WeightsR, a: MatR) -> MatR {
  match w {
    WeightsR::Unit => a,
    WeightsR::Diag(d) => mat_new(a.r, a.c, |i:int,j:int| d[i] * a.get(i,j)),
  }
}
pub open spec fn w_ok(w: WeightsR, rows: nat) -> bool {
  match w { WeightsR::Unit => true, WeightsR::Diag(d) => d.len() == rows }
}
pub open spec fn min_nat(a: nat, b: nat) -> nat { if a <= b { a } else { b } }

/// the SVD hypotheses as a predicate over arbitrary (U, s, Vt): keeps `la` free of uninterpreted symbols
pub open spec fn svd_ok(a: MatR, u: MatR, s: Seq<real>, vt: MatR) -> bool {
  let k = min_nat(a.r, a.c);
  &&& a.wf() && u.wf() && vt.wf()
  &&& u.r == a.r && u.c == k && s.len() == k && vt.r == k && vt.c == a.c
  &&& forall |i:int| 0 <= i < k ==> #[trigger] s[i] >= 0real
  &&& a == mmul(mmul(u, diagm(s)), vt)
  &&& mmul(mtr(u), u) == ident(k)
  &&& mmul(vt, mtr(vt)) == ident(k)
}
/// literally nalgebra svd.rs:617-634:  v_t.ad_mul( unscale_or_zero( u.ad_mul(b) ) )
pub open spec fn solve_spec(u: MatR, s: Seq<real>, vt: MatR, b: MatR, eps: real) -> MatR {
  mmul(mtr(vt), mmul(diagm(pinv_diag(s, eps)), mmul(mtr(u), b)))
}
/// the matrix the truncated solve is exact for
pub open spec fn a_eps(u: MatR, s: Seq<real>, vt: MatR, eps: real) -> MatR {
  mmul(mmul(u, diagm(trunc(s, eps))), vt)
}
pub open spec fn full_rank_at(s: Seq<real>, eps: real) -> bool { forall |i:int| 0 <= i < s.len() ==> #[trigger] s[i] > eps }
/// what the code computes per Jacobian column:  U (U^T X) - X   with X = (W D_k) C
pub open spec fn kaufman_col(u: MatR, dwc: MatR) -> MatR { msub(mmul(u, mmul(mtr(u), dwc)), dwc) }

pub open spec fn row_m(a: MatR, i0: int) -> MatR { mat_new(1, a.c, |i:int,j:int| a.get(i0,j)) }
/// the matrix whose columns are the given sequences
pub open spec fn from_cols(r: nat, cols: Seq<Seq<real>>) -> MatR { MatR { r, c: cols.len(), e: cols } }

pub proof fn lemma_col_e0(a: MatR, j: int)
  requires a.wf(), 0 <= j < a.c
  ensures col(a, j).e[0] == a.e[j], col(a, j).wf(), col(a, j).r == a.r, col(a, j).c == 1
{
  assert(col(a, j).e[0] =~= a.e[j]);
}
pub proof fn lemma_hcat_cols(a: MatR, b: MatR)
  requires a.wf(), b.wf(), a.r == b.r
  ensures hcat(a, b).wf(), hcat(a, b).r == a.r, hcat(a, b).c == a.c + b.c,
    forall |j: int| 0 <= j < a.c ==> #[trigger] hcat(a, b).e[j] == a.e[j],
    forall |j: int| a.c <= j < a.c + b.c ==> #[trigger] hcat(a, b).e[j] == b.e[j - a.c],
{
  let h = hcat(a, b);
  assert forall |j: int| 0 <= j < a.c implies #[trigger] h.e[j] == a.e[j] by { assert(h.e[j] =~= a.e[j]); }
  assert forall |j: int| a.c <= j < a.c + b.c implies #[trigger] h.e[j] == b.e[j - a.c] by { assert(h.e[j] =~= b.e[j - a.c]); }
}

// =====================================================================================================
// Theorems (DESIGN.md section 3). Everything below is proved from the definitions; `la` has no axioms.

pub proof fn lemma_shapes(a: MatR, b: MatR)
  ensures mmul(a,b).wf(), mmul(a,b).r == a.r, mmul(a,b).c == b.c,
          msub(a,b).wf(), msub(a,b).r == a.r, msub(a,b).c == a.c,
          madd(a,b).wf(), madd(a,b).r == a.r, madd(a,b).c == a.c,
          mtr(a).wf(), mtr(a).r == a.c, mtr(a).c == a.r,
{}

// ---- columns
pub proof fn lemma_col_mmul(a: MatR, b: MatR, s: int)
  requires a.wf(), b.wf(), a.c == b.r, 0 <= s < b.c
  ensures col(mmul(a,b), s) == mmul(a, col(b,s))
{
  let l = col(mmul(a,b), s); let r = mmul(a, col(b,s));
  assert forall |i:int,j:int| 0 <= i < l.r && 0 <= j < l.c implies #[trigger] l.get(i,j) == r.get(i,j) by {
    let f = |k:int| a.get(i,k) * b.get(k,s);
    let g = |k:int| a.get(i,k) * col(b,s).get(k,j);
    assert forall |k:int| 0 <= k < a.c implies #[trigger] f(k) == g(k) by {}
    sum_ext(a.c as int, f, g);
  }
  mat_ext(l, r);
}
pub proof fn lemma_col_msub(a: MatR, b: MatR, s: int)
  requires a.wf(), b.wf(), a.r == b.r, a.c == b.c, 0 <= s < a.c
  ensures col(msub(a,b), s) == msub(col(a,s), col(b,s))
{
  let l = col(msub(a,b), s); let r = msub(col(a,s), col(b,s));
  assert forall |i:int,j:int| 0 <= i < l.r && 0 <= j < l.c implies #[trigger] l.get(i,j) == r.get(i,j) by {}
  mat_ext(l, r);
}
pub proof fn lemma_col_zero(a: MatR, s: int)
  requires a.wf(), 0 <= s < a.c, is_zero(a)
  ensures is_zero(col(a,s))
{
  assert forall |i:int,j:int| 0 <= i < col(a,s).r && 0 <= j < col(a,s).c implies #[trigger] col(a,s).get(i,j) == 0real by {
    assert(a.get(i,s) == 0real);
  }
}

/// C01: normal equations for the whole right-hand-side matrix => every column is a least-squares minimiser
pub proof fn T_ls_min(a: MatR, b: MatR, x: MatR, z: MatR, s: int)
  requires a.wf(), b.wf(), x.wf(), z.wf(), b.r == a.r, x.r == a.c, x.c == b.c, z.r == a.c, z.c == 1, 0 <= s < b.c,
           is_zero(mmul(mtr(a), msub(b, mmul(a, x)))),
  ensures frob2(msub(col(b,s), mmul(a, col(x,s)))) <= frob2(msub(col(b,s), mmul(a, z)))
{
  lemma_shapes(a, x); lemma_shapes(b, mmul(a,x)); lemma_shapes(mtr(a), msub(b, mmul(a,x))); lemma_shapes(a, b);
  let res = msub(b, mmul(a,x));
  lemma_col_zero(mmul(mtr(a), res), s);
  lemma_col_mmul(mtr(a), res, s);
  lemma_col_msub(b, mmul(a,x), s);
  lemma_col_mmul(a, x, s);
  lemma_col_e0(b, s); lemma_col_e0(x, s);
  ls_min_col(a, col(b,s), col(x,s), z);
}

// ---- truncation
pub proof fn T_full_rank(a: MatR, u: MatR, s: Seq<real>, vt: MatR, eps: real)
  requires svd_ok(a, u, s, vt), full_rank_at(s, eps)
  ensures a_eps(u, s, vt, eps) == a
{
  assert(trunc(s, eps) =~= s);
}

/// C01: the literal nalgebra solve formula satisfies the normal equations of the eps-truncated matrix,
/// hence minimises every column's residual norm against every competitor
pub proof fn T_solve_minimises(a: MatR, u: MatR, s: Seq<real>, vt: MatR, b: MatR, eps: real, z: MatR, sidx: int)
  requires svd_ok(a, u, s, vt), b.wf(), b.r == a.r, eps >= 0real, z.wf(), z.r == a.c, z.c == 1, 0 <= sidx < b.c,
  ensures ({
    let x = solve_spec(u, s, vt, b, eps);
    let ae = a_eps(u, s, vt, eps);
    &&& is_zero(mmul(mtr(ae), msub(b, mmul(ae, x))))
    &&& frob2(msub(col(b,sidx), mmul(ae, col(x,sidx)))) <= frob2(msub(col(b,sidx), mmul(ae, z)))
    &&& full_rank_at(s, eps) ==> ae == a
  })
{
  let x = solve_spec(u, s, vt, b, eps);
  let ae = a_eps(u, s, vt, eps);
  ls_normal(u, s, vt, b, eps);
  lemma_shapes(u, diagm(trunc(s,eps))); lemma_shapes(mmul(u, diagm(trunc(s,eps))), vt);
  lemma_shapes(mtr(u), b); lemma_shapes(diagm(pinv_diag(s,eps)), mmul(mtr(u), b)); lemma_shapes(mtr(vt), mmul(diagm(pinv_diag(s,eps)), mmul(mtr(u), b)));
  lemma_shapes(vt, vt);
  T_ls_min(ae, b, x, z, sidx);
  if full_rank_at(s, eps) { T_full_rank(a, u, s, vt, eps); }
}

// ---- more ring laws
pub proof fn mmul_ident_r(a: MatR) requires a.wf() ensures mmul(a, ident(a.c)) == a
{
  let l = mmul(a, ident(a.c));
  assert forall |i:int,j:int| 0 <= i < l.r && 0 <= j < l.c implies #[trigger] l.get(i,j) == a.get(i,j) by {
    let f = |k:int| a.get(i,k) * ident(a.c).get(k,j);
    assert forall |k:int| 0 <= k < a.c && k != j implies #[trigger] f(k) == 0real by {
      assert(a.get(i,k) * 0real == 0real) by(nonlinear_arith);
    }
    sum_single(a.c as int, f, j);
    assert(a.get(i,j) * 1real == a.get(i,j)) by(nonlinear_arith);
  }
  mat_ext(l, a);
}
pub proof fn mmul_msub_l(a: MatR, b: MatR, c: MatR)
  requires a.wf(), b.wf(), c.wf(), a.r == b.r, a.c == b.c, a.c == c.r
  ensures mmul(msub(a,b), c) == msub(mmul(a,c), mmul(b,c))
{
  let l = mmul(msub(a,b), c); let r = msub(mmul(a,c), mmul(b,c));
  assert forall |i:int,j:int| 0 <= i < l.r && 0 <= j < l.c implies #[trigger] l.get(i,j) == r.get(i,j) by {
    let fa = |k:int| a.get(i,k) * c.get(k,j);
    let fb = |k:int| b.get(i,k) * c.get(k,j);
    let fd = |k:int| msub(a,b).get(i,k) * c.get(k,j);
    let fab = |k:int| fa(k) - fb(k);
    sum_sub(a.c as int, fa, fb);
    assert forall |k:int| 0 <= k < a.c implies #[trigger] fd(k) == fab(k) by {
      assert((a.get(i,k) - b.get(i,k)) * c.get(k,j) == a.get(i,k) * c.get(k,j) - b.get(i,k) * c.get(k,j)) by(nonlinear_arith);
    }
    sum_ext(a.c as int, fd, fab);
  }
  mat_ext(l, r);
}
pub proof fn mmul_madd_r(a: MatR, b: MatR, c: MatR)
  requires a.wf(), b.wf(), c.wf(), a.c == b.r, b.r == c.r, b.c == c.c
  ensures mmul(a, madd(b,c)) == madd(mmul(a,b), mmul(a,c))
{
  let l = mmul(a, madd(b,c)); let r = madd(mmul(a,b), mmul(a,c));
  assert forall |i:int,j:int| 0 <= i < l.r && 0 <= j < l.c implies #[trigger] l.get(i,j) == r.get(i,j) by {
    let fb = |k:int| a.get(i,k) * b.get(k,j);
    let fc = |k:int| a.get(i,k) * c.get(k,j);
    let fd = |k:int| a.get(i,k) * madd(b,c).get(k,j);
    let fbc = |k:int| fb(k) + fc(k);
    sum_add(a.c as int, fb, fc);
    assert forall |k:int| 0 <= k < a.c implies #[trigger] fd(k) == fbc(k) by {
      assert(a.get(i,k) * (b.get(k,j) + c.get(k,j)) == a.get(i,k) * b.get(k,j) + a.get(i,k) * c.get(k,j)) by(nonlinear_arith);
    }
    sum_ext(a.c as int, fd, fbc);
  }
  mat_ext(l, r);
}
pub proof fn mmul_scale_r(a: MatR, b: MatR, t: real)
  requires a.wf(), b.wf(), a.c == b.r
  ensures mmul(a, scale(b,t)) == scale(mmul(a,b), t)
{
  let l = mmul(a, scale(b,t)); let r = scale(mmul(a,b), t);
  assert forall |i:int,j:int| 0 <= i < l.r && 0 <= j < l.c implies #[trigger] l.get(i,j) == r.get(i,j) by {
    let f = |k:int| a.get(i,k) * b.get(k,j);
    let fd = |k:int| a.get(i,k) * scale(b,t).get(k,j);
    let ft = |k:int| t * f(k);
    sum_scale(a.c as int, f, t);
    assert forall |k:int| 0 <= k < a.c implies #[trigger] fd(k) == ft(k) by {
      assert(a.get(i,k) * (t * b.get(k,j)) == t * (a.get(i,k) * b.get(k,j))) by(nonlinear_arith);
    }
    sum_ext(a.c as int, fd, ft);
  }
  mat_ext(l, r);
}
pub proof fn mtr_msub(a: MatR, b: MatR)
  requires a.wf(), b.wf(), a.r == b.r, a.c == b.c
  ensures mtr(msub(a,b)) == msub(mtr(a), mtr(b))
{
  let l = mtr(msub(a,b)); let r = msub(mtr(a), mtr(b));
  assert forall |i:int,j:int| 0 <= i < l.r && 0 <= j < l.c implies #[trigger] l.get(i,j) == r.get(i,j) by {}
  mat_ext(l, r);
}
pub proof fn msub_self(a: MatR) requires a.wf() ensures is_zero(msub(a,a)), msub(a,a) == zeros(a.r, a.c)
{
  mat_ext(msub(a,a), zeros(a.r, a.c));
}
pub proof fn mmul_zero_r(a: MatR, r: nat, c: nat) requires a.wf(), a.c == r ensures mmul(a, zeros(r,c)) == zeros(a.r, c)
{
  let l = mmul(a, zeros(r,c));
  assert forall |i:int,j:int| 0 <= i < l.r && 0 <= j < l.c implies #[trigger] l.get(i,j) == 0real by {
    let f = |k:int| a.get(i,k) * zeros(r,c).get(k,j);
    assert forall |k:int| 0 <= k < a.c implies #[trigger] f(k) == 0real by { assert(a.get(i,k) * 0real == 0real) by(nonlinear_arith); }
    sum_all_zero(a.c as int, f);
  }
  mat_ext(l, zeros(a.r, c));
}

/// C01: "the coefficients depend linearly on the observations"
pub proof fn T_linear(u: MatR, s: Seq<real>, vt: MatR, b1: MatR, b2: MatR, t: real, eps: real)
  requires u.wf(), vt.wf(), b1.wf(), b2.wf(), b1.r == u.r, b2.r == u.r, b1.c == b2.c, s.len() == u.c, vt.r == u.c,
  ensures solve_spec(u, s, vt, madd(b1, scale(b2, t)), eps)
       == madd(solve_spec(u, s, vt, b1, eps), scale(solve_spec(u, s, vt, b2, eps), t)),
{
  let ut = mtr(u); let v = mtr(vt); let sp = diagm(pinv_diag(s, eps));
  lemma_shapes(b2, b2); lemma_shapes(ut, b1); lemma_shapes(ut, b2);
  let sb2 = scale(b2, t);
  // u^T (b1 + t b2) = u^T b1 + t u^T b2
  mmul_madd_r(ut, b1, sb2);
  mmul_scale_r(ut, b2, t);
  let w1 = mmul(ut, b1); let w2 = mmul(ut, b2);
  lemma_shapes(sp, w1); lemma_shapes(sp, w2);
  mmul_madd_r(sp, w1, scale(w2, t));
  mmul_scale_r(sp, w2, t);
  let y1 = mmul(sp, w1); let y2 = mmul(sp, w2);
  lemma_shapes(v, y1); lemma_shapes(v, y2);
  mmul_madd_r(v, y1, scale(y2, t));
  mmul_scale_r(v, y2, t);
}

/// C07: column s of the solution for B is the solution for column s of B
pub proof fn T_col_solve(u: MatR, s: Seq<real>, vt: MatR, b: MatR, eps: real, sidx: int)
  requires u.wf(), vt.wf(), b.wf(), b.r == u.r, s.len() == u.c, vt.r == u.c, 0 <= sidx < b.c,
  ensures col(solve_spec(u, s, vt, b, eps), sidx) == solve_spec(u, s, vt, col(b, sidx), eps),
{
  let ut = mtr(u); let v = mtr(vt); let sp = diagm(pinv_diag(s, eps));
  lemma_shapes(ut, b); lemma_shapes(sp, mmul(ut, b)); lemma_shapes(v, mmul(sp, mmul(ut, b)));
  lemma_col_mmul(v, mmul(sp, mmul(ut, b)), sidx);
  lemma_col_mmul(sp, mmul(ut, b), sidx);
  lemma_col_mmul(ut, b, sidx);
}

// ---- weights (C06)
pub proof fn T_w_shapes(w: WeightsR, a: MatR)
  requires a.wf()
  ensures wmul(w, a).wf(), wmul(w, a).r == a.r, wmul(w, a).c == a.c
{}
pub proof fn T_w_unit(a: MatR)
  requires a.wf()
  ensures wmul(WeightsR::Unit, a) == a,
          wmul(WeightsR::Diag(Seq::new(a.r, |i:int| 1real)), a) == a,
{
  let o = wmul(WeightsR::Diag(Seq::new(a.r, |i:int| 1real)), a);
  assert forall |i:int,j:int| 0 <= i < a.r && 0 <= j < a.c implies #[trigger] o.get(i,j) == a.get(i,j) by {
    assert(1real * a.get(i,j) == a.get(i,j)) by(nonlinear_arith);
  }
  mat_ext(o, a);
}
pub proof fn T_w_mul(w: WeightsR, a: MatR, b: MatR)
  requires a.wf(), b.wf(), a.c == b.r, w_ok(w, a.r)
  ensures wmul(w, mmul(a,b)) == mmul(wmul(w,a), b)
{
  match w {
    WeightsR::Unit => {}
    WeightsR::Diag(d) => {
      let l = wmul(w, mmul(a,b)); let r = mmul(wmul(w,a), b);
      assert forall |i:int,j:int| 0 <= i < l.r && 0 <= j < l.c implies #[trigger] l.get(i,j) == r.get(i,j) by {
        let f = |k:int| a.get(i,k) * b.get(k,j);
        let g = |k:int| wmul(w,a).get(i,k) * b.get(k,j);
        let h = |k:int| d[i] * f(k);
        sum_scale(a.c as int, f, d[i]);
        assert forall |k:int| 0 <= k < a.c implies #[trigger] g(k) == h(k) by {
          assert((d[i] * a.get(i,k)) * b.get(k,j) == d[i] * (a.get(i,k) * b.get(k,j))) by(nonlinear_arith);
        }
        sum_ext(a.c as int, g, h);
      }
      mat_ext(l, r);
    }
  }
}
pub proof fn T_w_sub(w: WeightsR, a: MatR, b: MatR)
  requires a.wf(), b.wf(), a.r == b.r, a.c == b.c, w_ok(w, a.r)
  ensures wmul(w, msub(a,b)) == msub(wmul(w,a), wmul(w,b))
{
  match w {
    WeightsR::Unit => {}
    WeightsR::Diag(d) => {
      let l = wmul(w, msub(a,b)); let r = msub(wmul(w,a), wmul(w,b));
      assert forall |i:int,j:int| 0 <= i < l.r && 0 <= j < l.c implies #[trigger] l.get(i,j) == r.get(i,j) by {
        assert(d[i] * (a.get(i,j) - b.get(i,j)) == d[i] * a.get(i,j) - d[i] * b.get(i,j)) by(nonlinear_arith);
      }
      mat_ext(l, r);
    }
  }
}
/// a zero weight removes the influence of that sample: rows with weight 0 may differ arbitrarily
pub proof fn T_w_zero_row(d: Seq<real>, a: MatR, a2: MatR)
  requires a.wf(), a2.wf(), a.r == a2.r, a.c == a2.c, d.len() == a.r,
           forall |i:int,j:int| 0 <= i < a.r && 0 <= j < a.c && d[i] != 0real ==> #[trigger] a.get(i,j) == a2.get(i,j),
  ensures wmul(WeightsR::Diag(d), a) == wmul(WeightsR::Diag(d), a2)
{
  let l = wmul(WeightsR::Diag(d), a); let r = wmul(WeightsR::Diag(d), a2);
  assert forall |i:int,j:int| 0 <= i < l.r && 0 <= j < l.c implies #[trigger] l.get(i,j) == r.get(i,j) by {
    if d[i] != 0real { assert(a.get(i,j) == a2.get(i,j)); }
    else { assert(0real * a.get(i,j) == 0real * a2.get(i,j)) by(nonlinear_arith); }
  }
  mat_ext(l, r);
}
/// C02: W Y - (W Phi) C = W (Y - Phi C)
pub proof fn T_weighted_residual(w: WeightsR, y: MatR, phi: MatR, c: MatR)
  requires y.wf(), phi.wf(), c.wf(), phi.r == y.r, phi.c == c.r, c.c == y.c, w_ok(w, y.r)
  ensures msub(wmul(w, y), mmul(wmul(w, phi), c)) == wmul(w, msub(y, mmul(phi, c)))
{
  lemma_shapes(phi, c);
  T_w_mul(w, phi, c);
  T_w_sub(w, y, mmul(phi, c));
}

// ---- column stacking (C02, C03, C07): block s of vec(A) is column s of A
pub proof fn T_vec_block(a: MatR, s: int, i: int)
  requires a.wf(), 0 <= s < a.c, 0 <= i < a.r
  ensures vecm(a).get(s * (a.r as int) + i, 0) == a.get(i, s),
          0 <= s * (a.r as int) + i < a.r * a.c,
{
  let r = a.r as int; let t = s * r + i;
  assert(0 <= t < a.r * a.c) by(nonlinear_arith) requires 0 <= s < a.c, 0 <= i < r, r == a.r, t == s * r + i;
  vstd::arithmetic::div_mod::lemma_fundamental_div_mod_converse(t, r, s, i);
}

// ---- projector / Kaufman column (C03)
/// U^T U = I is all that is needed: every Jacobian column U(U^T X) - X equals (P - I) X with P = U U^T, P is symmetric and
/// idempotent, P A = A, and A^T ((P - I) X) = 0 (orthogonal to the range of A) -- for any rank.
pub proof fn T_proj(a: MatR, u: MatR, s: Seq<real>, vt: MatR, x: MatR)
  requires svd_ok(a, u, s, vt), x.wf(), x.r == a.r,
  ensures ({
    let p = mmul(u, mtr(u));
    &&& symmetric(p)
    &&& mmul(p, p) == p
    &&& mmul(p, a) == a
    &&& kaufman_col(u, x) == msub(mmul(p, x), x)
    &&& is_zero(mmul(mtr(a), kaufman_col(u, x)))
  })
{
  let k = min_nat(a.r, a.c);
  let ut = mtr(u); let p = mmul(u, ut); let sd = diagm(s);
  lemma_shapes(u, ut); lemma_shapes(ut, x); lemma_shapes(u, sd); lemma_shapes(mmul(u, sd), vt); lemma_shapes(ut, u);
  // symmetric: (U U^T)^T = U^T^T U^T = U U^T
  mtr_mmul(u, ut); mtr_mtr(u);
  assert(mtr(p) == p);
  // idempotent: (U U^T)(U U^T) = U ((U^T U) U^T) = U U^T
  mmul_assoc(u, ut, p);             // (u ut) p == u (ut p)
  mmul_assoc(ut, u, ut);            // (ut u) ut == ut (u ut)
  mmul_ident_l(ut);
  assert(mmul(ut, p) == ut);
  assert(mmul(p, p) == p);
  // P A = U U^T (U S Vt) = U S Vt
  let us = mmul(u, sd);
  mmul_assoc(u, ut, a);             // (u ut) a == u (ut a)
  mmul_assoc(ut, us, vt);           // (ut us) vt == ut (us vt)
  mmul_assoc(ut, u, sd);            // (ut u) sd == ut (u sd)
  mmul_ident_l(sd);
  assert(mmul(ut, us) == sd);
  assert(mmul(ut, a) == mmul(sd, vt));
  mmul_assoc(u, sd, vt);            // (u sd) vt == u (sd vt)
  assert(mmul(p, a) == a);
  // kaufman_col: U (U^T X) = (U U^T) X
  mmul_assoc(u, ut, x);
  assert(kaufman_col(u, x) == msub(mmul(p, x), x));
  // A^T (P X - X) = A^T P X - A^T X, and A^T P = (P A)^T = A^T
  let at = mtr(a);
  lemma_shapes(p, x); lemma_shapes(at, p);
  mmul_msub_r(at, mmul(p, x), x);
  mmul_assoc(at, p, x);             // (at p) x == at (p x)
  mtr_mmul(p, a);                   // (p a)^T == a^T p^T
  assert(mmul(at, p) == at);
  lemma_shapes(at, x);
  msub_self(mmul(at, x));
}
/// with full column rank (all singular values > 0, N >= M) P is exactly A times the pseudo-inverse: range(P) = range(A)
pub proof fn T_proj_range(a: MatR, u: MatR, s: Seq<real>, vt: MatR)
  requires svd_ok(a, u, s, vt), full_rank_at(s, 0real), a.r >= a.c,
  ensures mmul(u, mtr(u)) == mmul(a, mmul(mtr(vt), mmul(diagm(pinv_diag(s, 0real)), mtr(u))))
{
  let ut = mtr(u); let v = mtr(vt); let sd = diagm(s); let sp = diagm(pinv_diag(s, 0real));
  let k = min_nat(a.r, a.c);
  lemma_shapes(u, sd); lemma_shapes(sp, ut); lemma_shapes(v, mmul(sp, ut)); lemma_shapes(mmul(u, sd), vt); lemma_shapes(vt, v);
  let us = mmul(u, sd);
  let g = mmul(v, mmul(sp, ut));
  // (us vt) (v (sp ut)) = us ((vt v) (sp ut)) = us (sp ut)
  mmul_assoc(us, vt, g);
  mmul_assoc(vt, v, mmul(sp, ut));
  mmul_ident_l(mmul(sp, ut));
  assert(mmul(vt, g) == mmul(sp, ut));
  // (u sd)(sp ut) = u (sd (sp ut)) = u ((sd sp) ut) = u ut
  mmul_assoc(u, sd, mmul(sp, ut));
  mmul_assoc(sd, sp, ut);
  diagm_mul(s, pinv_diag(s, 0real));
  assert forall |i:int| 0 <= i < s.len() implies #[trigger] smul(s, pinv_diag(s, 0real))[i] == 1real by {
    assert(s[i] > 0real);
    assert(s[i] * (1real / s[i]) == 1real) by(nonlinear_arith) requires s[i] > 0real;
  }
  assert(diagm(smul(s, pinv_diag(s, 0real))) == ident(s.len())) by {
    mat_ext(diagm(smul(s, pinv_diag(s, 0real))), ident(s.len()));
  }
  mmul_ident_l(ut);
}

// ---- covariance (C13)
pub open spec fn unit_vec(n: nat, i0: int) -> MatR { mat_new(n, 1, |i:int,j:int| if i == i0 { 1real } else { 0real }) }
pub proof fn lemma_frob2_nonneg(a: MatR) ensures frob2(a) >= 0real
{
  let outer = |j:int| sum(a.r as int, |i:int| a.get(i,j)*a.get(i,j));
  assert forall |j:int| 0 <= j < a.c implies #[trigger] outer(j) >= 0real by {
    let inner = |i:int| a.get(i,j)*a.get(i,j);
    assert forall |i:int| 0 <= i < a.r implies #[trigger] inner(i) >= 0real by {
      assert(a.get(i,j)*a.get(i,j) >= 0real) by(nonlinear_arith);
    }
    sum_nonneg(a.r as int, inner);
  }
  sum_nonneg(a.c as int, outer);
}
/// the inverse of H^T H is symmetric, so cov = t * inv is symmetric
pub proof fn T_cov_symmetric(h: MatR, inv: MatR, t: real)
  requires h.wf(), inv.wf(), inv.r == h.c, inv.c == h.c,
           mmul(mmul(mtr(h), h), inv) == ident(h.c), mmul(inv, mmul(mtr(h), h)) == ident(h.c),
  ensures symmetric(inv), symmetric(scale(inv, t)), symmetric(scale(scale(inv, t), t)),
{
  let m = mmul(mtr(h), h); let it = mtr(inv);
  lemma_shapes(mtr(h), h); lemma_shapes(m, inv);
  // m symmetric
  mtr_mmul(mtr(h), h); mtr_mtr(h);
  assert(mtr(m) == m);
  // it m = (m inv)^T = I
  mtr_mmul(m, inv);
  assert(mtr(ident(h.c)) == ident(h.c)) by { mat_ext(mtr(ident(h.c)), ident(h.c)); }
  assert(mmul(it, m) == ident(h.c));
  // it = it (m inv) = (it m) inv = inv
  mmul_assoc(it, m, inv);
  mmul_ident_r(it);
  mmul_ident_l(inv);
  assert(it == inv);
  assert(mtr(scale(inv, t)) == scale(inv, t)) by { mat_ext(mtr(scale(inv, t)), scale(inv, t)); }
  let c2 = scale(scale(inv, t), t);
  assert(mtr(c2) == c2) by {
    assert forall |i:int,j:int| 0 <= i < c2.r && 0 <= j < c2.c implies #[trigger] mtr(c2).get(i,j) == c2.get(i,j) by {
      assert(inv.get(j,i) == mtr(inv).get(i,j));
    }
    mat_ext(mtr(c2), c2);
  }
}

// ---------------------------------------------------------------------------------------- Cauchy-Schwarz, positive semi-definiteness
pub proof fn lemma_sq_le(t: real, w: real)
  requires t >= 0real, t * t >= w * w,
  ensures t >= w,
{
  if t < w {
    assert(w > 0real);
    assert(w * w > t * t) by(nonlinear_arith) requires w > t, t >= 0real;
  }
}
pub proof fn lemma_cs_step(aa: real, bb: real, c: real, x: real, y: real)
  requires aa >= 0real, bb >= 0real, c * c <= aa * bb,
  ensures (c + x * y) * (c + x * y) <= (aa + x * x) * (bb + y * y),
{
  let xx = x * x; let yy = y * y; let q = x * y;
  assert(xx >= 0real) by(nonlinear_arith) requires xx == x * x;
  assert(yy >= 0real) by(nonlinear_arith) requires yy == y * y;
  let p = q * q;
  assert(p >= 0real) by(nonlinear_arith) requires p == q * q;
  assert(p == xx * yy) by(nonlinear_arith) requires p == q * q, q == x * y, xx == x * x, yy == y * y;
  let u = aa * yy; let v = bb * xx;
  assert(u >= 0real) by(nonlinear_arith) requires u == aa * yy, aa >= 0real, yy >= 0real;
  assert(v >= 0real) by(nonlinear_arith) requires v == bb * xx, bb >= 0real, xx >= 0real;
  let t = u + v;
  let d = u - v;
  assert(d * d >= 0real) by(nonlinear_arith);
  assert(t * t == d * d + 4real * (u * v)) by(nonlinear_arith) requires t == u + v, d == u - v;
  let ab = aa * bb;
  assert(u * v == ab * p) by(nonlinear_arith) requires u == aa * yy, v == bb * xx, ab == aa * bb, p == xx * yy;
  let cc = c * c;
  assert(ab * p >= cc * p) by(nonlinear_arith) requires cc <= ab, p >= 0real;
  let w = 2real * (c * q);
  assert(w * w == 4real * (cc * p)) by(nonlinear_arith) requires w == 2real * (c * q), cc == c * c, p == q * q;
  assert(t * t >= w * w);
  lemma_sq_le(t, w);
  let lhs = (c + q) * (c + q);
  assert(lhs == cc + w + p) by(nonlinear_arith) requires lhs == (c + q) * (c + q), cc == c * c, w == 2real * (c * q), p == q * q;
  let rhs = (aa + xx) * (bb + yy);
  assert(rhs == ab + u + v + p) by(nonlinear_arith) requires rhs == (aa + xx) * (bb + yy), ab == aa * bb, u == aa * yy, v == bb * xx, p == xx * yy;
  assert(lhs <= rhs);
}
/// (sum a_k b_k)^2 <= (sum a_k^2)(sum b_k^2)
pub proof fn sum_cauchy_schwarz(n: int, a: spec_fn(int)->real, b: spec_fn(int)->real)
  ensures
    sum(n, |k:int| a(k) * b(k)) * sum(n, |k:int| a(k) * b(k)) <= sum(n, |k:int| a(k) * a(k)) * sum(n, |k:int| b(k) * b(k)),
    sum(n, |k:int| a(k) * a(k)) >= 0real, sum(n, |k:int| b(k) * b(k)) >= 0real,
  decreases n
{
  if n > 0 {
    sum_cauchy_schwarz(n - 1, a, b);
    let aa = sum(n - 1, |k:int| a(k) * a(k)); let bb = sum(n - 1, |k:int| b(k) * b(k)); let c = sum(n - 1, |k:int| a(k) * b(k));
    let x = a(n - 1); let y = b(n - 1);
    lemma_cs_step(aa, bb, c, x, y);
    assert(x * x >= 0real) by(nonlinear_arith);
    assert(y * y >= 0real) by(nonlinear_arith);
  } else {
    assert(0real * 0real <= 0real * 0real) by(nonlinear_arith);
  }
}


/// (H^T H)^-1 is a Gram matrix: inv = G^T G with G = H inv
pub proof fn lemma_inv_gram(h: MatR, inv: MatR)
  requires h.wf(), inv.wf(), inv.r == h.c, inv.c == h.c,
           mmul(mmul(mtr(h), h), inv) == ident(h.c), mmul(inv, mmul(mtr(h), h)) == ident(h.c),
  ensures inv == mmul(mtr(mmul(h, inv)), mmul(h, inv)),
{
  T_cov_symmetric(h, inv, 1real);
  let g = mmul(h, inv);
  let ht = mtr(h);
  lemma_shapes(h, inv); lemma_shapes(ht, h); lemma_shapes(h, h);
  let m = mmul(ht, h);
  mtr_mmul(h, inv);                       // g^T = inv^T h^T = inv h^T
  assert(mtr(g) == mmul(inv, ht));
  lemma_shapes(inv, ht);
  // g^T g = (inv h^T)(h inv) = inv (h^T (h inv)) = inv ((h^T h) inv) = inv I = inv
  mmul_assoc(inv, ht, g);
  mmul_assoc(ht, h, inv);
  assert(mmul(ht, g) == ident(h.c));
  mmul_ident_r(inv);
}
/// C13: the covariance s^2 (H^T H)^-1 has a non-negative diagonal and satisfies c_ij^2 <= c_ii c_jj (so correlations lie in [-1, 1])
pub proof fn T_cov_psd(h: MatR, inv: MatR, s: real)
  requires h.wf(), inv.wf(), inv.r == h.c, inv.c == h.c,
           mmul(mmul(mtr(h), h), inv) == ident(h.c), mmul(inv, mmul(mtr(h), h)) == ident(h.c),
  ensures
    forall |i:int| 0 <= i < h.c ==> #[trigger] scale(scale(inv, s), s).get(i,i) >= 0real,
    forall |i:int, j:int| 0 <= i < h.c && 0 <= j < h.c ==>
      #[trigger] scale(scale(inv, s), s).get(i,j) * scale(scale(inv, s), s).get(i,j) <= scale(scale(inv, s), s).get(i,i) * scale(scale(inv, s), s).get(j,j),
{
  lemma_inv_gram(h, inv);
  let g = mmul(h, inv);
  lemma_shapes(h, inv);
  let n = g.r as int;
  let c = scale(scale(inv, s), s);
  let t = s * s;
  assert(t >= 0real) by(nonlinear_arith) requires t == s * s;
  mat_new_wf(inv.r, inv.c, |i:int,j:int| s * inv.get(i,j));
  mat_new_wf(inv.r, inv.c, |i:int,j:int| s * scale(inv, s).get(i,j));
  assert forall |i:int, j:int| 0 <= i < h.c && 0 <= j < h.c implies
      inv.get(i,j) == sum(n, |k:int| g.get(k,i) * g.get(k,j)) && c.get(i,j) == t * inv.get(i,j) by {
    let gt = mtr(g);
    lemma_shapes(g, g);
    mat_new_wf(gt.r, g.c, |i2:int,j2:int| sum(gt.c as int, |k:int| gt.get(i2,k) * g.get(k,j2)));
    sum_ext(n, |k:int| gt.get(i,k) * g.get(k,j), |k:int| g.get(k,i) * g.get(k,j));
    assert(c.get(i,j) == s * (s * inv.get(i,j)));
    assert(s * (s * inv.get(i,j)) == (s * s) * inv.get(i,j)) by(nonlinear_arith);
  }
  assert forall |i:int| 0 <= i < h.c implies #[trigger] c.get(i,i) >= 0real by {
    let a = |k:int| g.get(k,i);
    sum_cauchy_schwarz(n, a, a);
    sum_ext(n, |k:int| a(k) * a(k), |k:int| g.get(k,i) * g.get(k,i));
    assert(inv.get(i,i) >= 0real);
    assert(t * inv.get(i,i) >= 0real) by(nonlinear_arith) requires t >= 0real, inv.get(i,i) >= 0real;
  }
  assert forall |i:int, j:int| 0 <= i < h.c && 0 <= j < h.c implies #[trigger] c.get(i,j) * c.get(i,j) <= c.get(i,i) * c.get(j,j) by {
    let fa = |k:int| g.get(k,i); let fb = |k:int| g.get(k,j);
    sum_cauchy_schwarz(n, fa, fb);
    sum_ext(n, |k:int| fa(k) * fb(k), |k:int| g.get(k,i) * g.get(k,j));
    sum_ext(n, |k:int| fa(k) * fa(k), |k:int| g.get(k,i) * g.get(k,i));
    sum_ext(n, |k:int| fb(k) * fb(k), |k:int| g.get(k,j) * g.get(k,j));
    let a = inv.get(i,j); let p = inv.get(i,i); let q = inv.get(j,j);
    assert(a * a <= p * q);
    assert((t * a) * (t * a) <= (t * p) * (t * q)) by(nonlinear_arith) requires a * a <= p * q, t >= 0real;
  }
}
/// C13: the correlation c_ij / sqrt(c_ii c_jj) lies in [-1, 1] and is 1 on the diagonal (for positive variances);
/// `r` is any non-negative square root of c_ii c_jj
pub proof fn T_corr_bounds(cij: real, cii: real, cjj: real, r: real)
  requires cij * cij <= cii * cjj, r > 0real, r * r == cii * cjj,
  ensures -1real <= cij / r <= 1real,
{
  let q = cij / r;
  assert(q * r == cij) by(nonlinear_arith) requires q == cij / r, r > 0real;
  assert(q * q * (r * r) == cij * cij) by(nonlinear_arith) requires q * r == cij;
  let rr = r * r;
  assert(rr > 0real) by(nonlinear_arith) requires rr == r * r, r > 0real;
  assert(q * q <= 1real) by(nonlinear_arith) requires q * q * rr <= rr, rr > 0real;
  if q > 1real { assert(q * q > 1real) by(nonlinear_arith) requires q > 1real; }
  if q < -1real { assert(q * q > 1real) by(nonlinear_arith) requires q < -1real; }
}
pub proof fn T_corr_diag(cii: real, r: real)
  requires cii > 0real, r >= 0real, r * r == cii * cii,
  ensures cii / r == 1real,
{
  assert(r == cii) by(nonlinear_arith) requires r >= 0real, cii > 0real, r * r == cii * cii;
  assert(cii / cii == 1real) by(nonlinear_arith) requires cii > 0real;
}

// ---------------------------------------------------------------------------------------- minimum norm (C01, rank-deficient case)
/// frob2 of a column vector as one sum
pub proof fn frob2_col(v: MatR)
  requires v.wf(), v.c == 1,
  ensures frob2(v) == sum(v.r as int, |i:int| v.get(i,0) * v.get(i,0)),
{
  reveal_with_fuel(sum, 2);
  let outer = |j:int| sum(v.r as int, |i:int| v.get(i,j) * v.get(i,j));
  assert(sum(1, outer) == sum(0, outer) + outer(0));
}
/// sum (f - g)^2 = sum f^2 - 2 sum f g + sum g^2
pub proof fn sum_sq_sub(n: int, f: spec_fn(int)->real, g: spec_fn(int)->real)
  ensures sum(n, |k:int| (f(k) - g(k)) * (f(k) - g(k))) == sum(n, |k:int| f(k) * f(k)) - 2real * sum(n, |k:int| f(k) * g(k)) + sum(n, |k:int| g(k) * g(k)),
  decreases n
{
  if n > 0 {
    sum_sq_sub(n - 1, f, g);
    let a = f(n - 1); let b = g(n - 1);
    assert((a - b) * (a - b) == a * a - 2real * (a * b) + b * b) by(nonlinear_arith);
    let sfg = sum(n - 1, |k:int| f(k) * g(k));
    assert(2real * (sfg + a * b) == 2real * sfg + 2real * (a * b)) by(nonlinear_arith);
  } else {
    assert(2real * 0real == 0real) by(nonlinear_arith);
  }
}
/// a sum of non-negative terms that is zero has only zero terms
pub proof fn sum_nonneg_zero(n: int, f: spec_fn(int)->real)
  requires forall |k:int| 0 <= k < n ==> #[trigger] f(k) >= 0real, sum(n, f) == 0real,
  ensures forall |k:int| 0 <= k < n ==> #[trigger] f(k) == 0real,
  decreases n
{
  if n > 0 {
    sum_nonneg(n - 1, f);
    assert(f(n - 1) >= 0real);
    sum_nonneg_zero(n - 1, f);
  }
}
pub proof fn frob2_zero_col(v: MatR)
  requires v.wf(), v.c == 1, frob2(v) == 0real,
  ensures v == zeros(v.r, 1),
{
  frob2_col(v);
  let f = |i:int| v.get(i,0) * v.get(i,0);
  assert forall |i:int| 0 <= i < v.r implies #[trigger] f(i) >= 0real by { assert(v.get(i,0) * v.get(i,0) >= 0real) by(nonlinear_arith); }
  sum_nonneg_zero(v.r as int, f);
  assert forall |i:int, j:int| 0 <= i < v.r && 0 <= j < v.c implies #[trigger] v.get(i,j) == zeros(v.r, 1).get(i,j) by {
    assert(f(i) == 0real);
    let t = v.get(i,0);
    assert(t == 0real) by(nonlinear_arith) requires t * t == 0real;
  }
  mat_new_wf(v.r, 1, |i:int,j:int| 0real);
  mat_ext(v, zeros(v.r, 1));
}
/// <A y, r> = <y, A^T r>
pub proof fn dot_adjoint(a: MatR, y: MatR, r: MatR)
  requires a.wf(), y.wf(), r.wf(), y.c == 1, r.c == 1, y.r == a.c, r.r == a.r,
  ensures dot(mmul(a, y), r) == dot(y, mmul(mtr(a), r)),
{
  let n = a.r as int; let m = a.c as int;
  let f2 = |i:int, k:int| a.get(i,k) * y.get(k,0) * r.get(i,0);
  lemma_shapes(a, y); lemma_shapes(mtr(a), r);
  mat_new_wf(a.r, 1, |i:int,j:int| sum(a.c as int, |k:int| a.get(i,k) * y.get(k,j)));
  mat_new_wf(a.c, 1, |i:int,j:int| sum(mtr(a).c as int, |k:int| mtr(a).get(i,k) * r.get(k,j)));
  // lhs = sum_i (sum_k a_ik y_k) r_i
  let l = |i:int| mmul(a, y).get(i,0) * r.get(i,0);
  let l2 = |i:int| sum(m, |k:int| f2(i,k));
  assert forall |i:int| 0 <= i < n implies #[trigger] l(i) == l2(i) by {
    let h = |k:int| a.get(i,k) * y.get(k,0);
    sum_scale(m, h, r.get(i,0));
    let p = |k:int| r.get(i,0) * h(k); let q = |k:int| f2(i,k);
    assert forall |k:int| 0 <= k < m implies #[trigger] p(k) == q(k) by {
      assert(r.get(i,0) * (a.get(i,k) * y.get(k,0)) == a.get(i,k) * y.get(k,0) * r.get(i,0)) by(nonlinear_arith);
    }
    sum_ext(m, p, q);
    assert(mmul(a, y).get(i,0) == sum(m, h));
    assert(sum(m, h) * r.get(i,0) == r.get(i,0) * sum(m, h)) by(nonlinear_arith);
  }
  sum_ext(n, l, l2);
  sum_swap(n, m, f2);
  // rhs = sum_k y_k (sum_i a_ik r_i)
  let rr = |k:int| y.get(k,0) * mmul(mtr(a), r).get(k,0);
  let r2 = |k:int| sum(n, |i:int| f2(i,k));
  assert forall |k:int| 0 <= k < m implies #[trigger] rr(k) == r2(k) by {
    let g0 = |i:int| mtr(a).get(k,i) * r.get(i,0);
    let g = |i:int| a.get(i,k) * r.get(i,0);
    assert(mmul(mtr(a), r).get(k,0) == sum(n, g0));
    sum_ext(n, g0, g);
    sum_scale(n, g, y.get(k,0));
    let p = |i:int| y.get(k,0) * g(i); let q = |i:int| f2(i,k);
    assert forall |i:int| 0 <= i < n implies #[trigger] p(i) == q(i) by {
      assert(y.get(k,0) * (a.get(i,k) * r.get(i,0)) == a.get(i,k) * y.get(k,0) * r.get(i,0)) by(nonlinear_arith);
    }
    sum_ext(n, p, q);
  }
  sum_ext(m, rr, r2);
}


pub proof fn sum_sq_add(n: int, f: spec_fn(int)->real, g: spec_fn(int)->real)
  ensures sum(n, |k:int| (f(k) + g(k)) * (f(k) + g(k))) == sum(n, |k:int| f(k) * f(k)) + 2real * sum(n, |k:int| f(k) * g(k)) + sum(n, |k:int| g(k) * g(k)),
  decreases n
{
  if n > 0 {
    sum_sq_add(n - 1, f, g);
    let a = f(n - 1); let b = g(n - 1);
    assert((a + b) * (a + b) == a * a + 2real * (a * b) + b * b) by(nonlinear_arith);
    let sfg = sum(n - 1, |k:int| f(k) * g(k));
    assert(2real * (sfg + a * b) == 2real * sfg + 2real * (a * b)) by(nonlinear_arith);
  } else {
    assert(2real * 0real == 0real) by(nonlinear_arith);
  }
}
/// Pythagoras for least squares: if x satisfies the normal equations then for every z
///   |b - A z|^2 = |b - A x|^2 + |A (x - z)|^2
pub proof fn ls_pythagoras(a: MatR, b: MatR, x: MatR, z: MatR)
  requires a.wf(), b.wf(), x.wf(), z.wf(), b.c == 1, x.c == 1, z.c == 1, b.r == a.r, x.r == a.c, z.r == a.c,
           is_zero(mmul(mtr(a), msub(b, mmul(a, x)))),
  ensures frob2(msub(b, mmul(a, z))) == frob2(msub(b, mmul(a, x))) + frob2(mmul(a, msub(x, z))),
{
  let n = a.r as int;
  let r = msub(b, mmul(a, x)); let e = msub(x, z); let ae = mmul(a, e); let rz = msub(b, mmul(a, z));
  lemma_shapes(a, x); lemma_shapes(a, z); lemma_shapes(b, mmul(a, x)); lemma_shapes(b, mmul(a, z)); lemma_shapes(x, z); lemma_shapes(a, e);
  lemma_shapes(mtr(a), r); lemma_shapes(a, a);
  mmul_msub_r(a, x, z);
  mat_new_wf(b.r, b.c, |i:int,j:int| b.get(i,j) - mmul(a, x).get(i,j));
  mat_new_wf(b.r, b.c, |i:int,j:int| b.get(i,j) - mmul(a, z).get(i,j));
  mat_new_wf(mmul(a,x).r, mmul(a,x).c, |i:int,j:int| mmul(a,x).get(i,j) - mmul(a,z).get(i,j));
  let f = |i:int| r.get(i,0); let g = |i:int| ae.get(i,0);
  frob2_col(r); frob2_col(ae); frob2_col(rz);
  sum_sq_add(n, f, g);
  sum_ext(n, |i:int| rz.get(i,0) * rz.get(i,0), |i:int| (f(i) + g(i)) * (f(i) + g(i)));
  sum_ext(n, |i:int| r.get(i,0) * r.get(i,0), |i:int| f(i) * f(i));
  sum_ext(n, |i:int| ae.get(i,0) * ae.get(i,0), |i:int| g(i) * g(i));
  // the cross term: <r, A e> = <A e, r> = <e, A^T r> = 0
  dot_adjoint(a, e, r);
  let atr = mmul(mtr(a), r);
  let h = |i:int| e.get(i,0) * atr.get(i,0);
  assert forall |k:int| 0 <= k < e.r implies #[trigger] h(k) == 0real by {
    assert(atr.get(k,0) == 0real);
    assert(e.get(k,0) * 0real == 0real) by(nonlinear_arith);
  }
  sum_all_zero(e.r as int, h);
  assert(dot(e, atr) == 0real);
  let fg = |i:int| f(i) * g(i); let gf = |i:int| ae.get(i,0) * r.get(i,0);
  assert forall |i:int| 0 <= i < n implies #[trigger] fg(i) == gf(i) by {
    assert(r.get(i,0) * ae.get(i,0) == ae.get(i,0) * r.get(i,0)) by(nonlinear_arith);
  }
  sum_ext(n, fg, gf);
  assert(2real * 0real == 0real) by(nonlinear_arith);
}
/// C01 (rank-deficient case): among all minimisers of |b - A_eps z|, the literal nalgebra solve formula has the smallest norm
pub proof fn T_ls_minnorm(a: MatR, u: MatR, s: Seq<real>, vt: MatR, b: MatR, eps: real, z: MatR)
  requires svd_ok(a, u, s, vt), b.wf(), b.r == a.r, b.c == 1, eps >= 0real, z.wf(), z.r == a.c, z.c == 1,
           frob2(msub(b, mmul(a_eps(u, s, vt, eps), z))) <= frob2(msub(b, mmul(a_eps(u, s, vt, eps), solve_spec(u, s, vt, b, eps)))),
  ensures frob2(solve_spec(u, s, vt, b, eps)) <= frob2(z),
{
  let k = s.len();
  let x = solve_spec(u, s, vt, b, eps);
  let ae = a_eps(u, s, vt, eps);
  let st = diagm(trunc(s, eps)); let sp = diagm(pinv_diag(s, eps));
  let ut = mtr(u); let v = mtr(vt);
  let utb = mmul(ut, b); let p = mmul(sp, utb);
  ls_normal(u, s, vt, b, eps);
  lemma_shapes(u, st); lemma_shapes(mmul(u, st), vt); lemma_shapes(ut, b); lemma_shapes(sp, utb); lemma_shapes(v, p); lemma_shapes(vt, vt);
  mat_new_wf(k, k, |i:int,j:int| if i == j { trunc(s, eps)[i] } else { 0real });
  mat_new_wf(k, k, |i:int,j:int| if i == j { pinv_diag(s, eps)[i] } else { 0real });
  let e = msub(x, z);
  lemma_shapes(x, z); lemma_shapes(ae, e);
  // 1. A_eps e = 0
  ls_pythagoras(ae, b, x, z);
  lemma_frob2_nonneg(mmul(ae, e));
  frob2_zero_col(mmul(ae, e));
  // 2. st (vt e) = ut (A_eps e) = 0
  let y = mmul(vt, e);
  lemma_shapes(vt, e); lemma_shapes(st, y); lemma_shapes(u, mmul(st, y));
  mmul_assoc(mmul(u, st), vt, e);
  mmul_assoc(u, st, y);
  mmul_assoc(ut, u, mmul(st, y));
  mmul_ident_l(mmul(st, y));
  mmul_zero_r(ut, a.r, 1);
  assert(mmul(st, y) == zeros(k, 1));
  diagm_mul_l(trunc(s, eps), y);
  mat_new_wf(y.r, y.c, |i:int,j:int| trunc(s, eps)[i] * y.get(i,j));
  mat_new_wf(k, 1, |i:int,j:int| 0real);
  // 3. <x, e> = <v p, e> = <p, vt e> = sum_i pinv_i utb_i y_i = 0
  dot_adjoint(v, p, e);
  mtr_mtr(vt);
  diagm_mul_l(pinv_diag(s, eps), utb);
  mat_new_wf(utb.r, utb.c, |i:int,j:int| pinv_diag(s, eps)[i] * utb.get(i,j));
  let h = |i:int| p.get(i,0) * y.get(i,0);
  assert forall |i:int| 0 <= i < k implies #[trigger] h(i) == 0real by {
    if s[i] > eps {
      let ti = trunc(s, eps)[i]; let yi = y.get(i,0);
      assert(mmul(st, y).get(i,0) == ti * yi);
      assert(zeros(k, 1).get(i,0) == 0real);
      assert(yi == 0real) by(nonlinear_arith) requires ti * yi == 0real, ti > 0real;
      assert(p.get(i,0) * 0real == 0real) by(nonlinear_arith);
    } else {
      assert(p.get(i,0) == 0real * utb.get(i,0));
      assert(0real * utb.get(i,0) == 0real) by(nonlinear_arith);
      assert(0real * y.get(i,0) == 0real) by(nonlinear_arith);
    }
  }
  sum_all_zero(k as int, h);
  assert(dot(x, e) == 0real);
  // 4. |z|^2 = |x - e|^2 = |x|^2 - 2 <x, e> + |e|^2 >= |x|^2
  let m = a.c as int;
  let fx = |j:int| x.get(j,0); let fe = |j:int| e.get(j,0);
  frob2_col(x); frob2_col(z); frob2_col(e);
  sum_sq_sub(m, fx, fe);
  mat_new_wf(x.r, x.c, |i:int,j:int| x.get(i,j) - z.get(i,j));
  sum_ext(m, |j:int| z.get(j,0) * z.get(j,0), |j:int| (fx(j) - fe(j)) * (fx(j) - fe(j)));
  sum_ext(m, |j:int| x.get(j,0) * x.get(j,0), |j:int| fx(j) * fx(j));
  sum_ext(m, |j:int| e.get(j,0) * e.get(j,0), |j:int| fe(j) * fe(j));
  sum_ext(m, |j:int| fx(j) * fe(j), |j:int| x.get(j,0) * e.get(j,0));
  lemma_frob2_nonneg(e);
  assert(2real * 0real == 0real) by(nonlinear_arith);
}

} // verus!
