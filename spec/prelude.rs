// PRELUDE: stub types and ASSUMED contracts (DESIGN.md section 4).
// This is the only place where external_body / assume_specification / uninterp / axiom_ may occur.
// Every item here is an assumption and is listed by name in the evidence (assumption scan).
// nalgebra references are to nalgebra-0.33.3, levenberg-marquardt-0.14.0, simba-0.9.1, distrs-0.2.3.
use vstd::prelude::*;
use crate::la::*;

verus! {

pub broadcast group group_prelude { axiom_dm_wf, axiom_mv_wf, axiom_eps_pos, axiom_sc_consts }

// =============================================================================== scalars
/// abstract real scalar (stands for f32 and f64 alike); floats are treated as mathematical reals.
/// `b` is an opaque token for the bit pattern; value and finiteness are uninterpreted functions of it.
pub struct Sc { pub b: u64 }
pub uninterp spec fn sc_val(b: u64) -> real;
/// IEEE finiteness; established only by an explicit run-time test
pub uninterp spec fn sc_fin(b: u64) -> bool;
impl View for Sc { type V = real; open spec fn view(&self) -> real { sc_val(self.b) } }
impl Sc {
  pub open spec fn fin(&self) -> bool { sc_fin(self.b) }
  /// statistics/numeric_traits CastF64::ZERO / ::ONE (`Model::ScalarType::ZERO` after rule X1)
  pub const ZERO: Sc = Sc { b: 0 };
  pub const ONE: Sc = Sc { b: 1 };
  /// num_traits::Float::is_finite
  #[verifier::external_body]
  pub fn is_finite(self) -> (r: bool) ensures r == self.fin() { unimplemented!() }
}
#[verifier::external_body]
pub broadcast proof fn axiom_sc_consts()
  ensures #[trigger] sc_val(0) == 0real, sc_fin(0), #[trigger] sc_val(1) == 1real, sc_fin(1) {}
impl Clone for Sc { #[verifier::external_body] fn clone(&self) -> (r: Self) ensures r == *self { unimplemented!() } }
impl Copy for Sc {}
// comparisons: IEEE semantics on finite values is the order of the reals; with a NaN every comparison is false
impl vstd::std_specs::cmp::PartialEqSpecImpl for Sc {
  open spec fn obeys_eq_spec() -> bool { false }
  open spec fn eq_spec(&self, other: &Sc) -> bool { self@ == other@ }
}
impl PartialEq for Sc { #[verifier::external_body] fn eq(&self, other: &Sc) -> (r: bool) { unimplemented!() } }
impl vstd::std_specs::cmp::PartialOrdSpecImpl for Sc {
  open spec fn obeys_partial_cmp_spec() -> bool { false }
  open spec fn partial_cmp_spec(&self, other: &Sc) -> Option<core::cmp::Ordering> { arbitrary() }
}
impl PartialOrd for Sc {
  #[verifier::external_body] fn partial_cmp(&self, other: &Sc) -> (r: Option<core::cmp::Ordering>) { unimplemented!() }
  #[verifier::external_body] fn lt(&self, other: &Sc) -> (r: bool)
    ensures r ==> self@ < other@, (self.fin() && other.fin()) ==> r == (self@ < other@) { unimplemented!() }
  #[verifier::external_body] fn gt(&self, other: &Sc) -> (r: bool)
    ensures r ==> self@ > other@, (self.fin() && other.fin()) ==> r == (self@ > other@) { unimplemented!() }
  #[verifier::external_body] fn le(&self, other: &Sc) -> (r: bool)
    ensures r ==> self@ <= other@, (self.fin() && other.fin()) ==> r == (self@ <= other@) { unimplemented!() }
  #[verifier::external_body] fn ge(&self, other: &Sc) -> (r: bool)
    ensures r ==> self@ >= other@, (self.fin() && other.fin()) ==> r == (self@ >= other@) { unimplemented!() }
}

/// machine epsilon of the scalar type (num_traits::Float::epsilon)
pub uninterp spec fn EPS() -> real;
#[verifier::external_body]
pub broadcast proof fn axiom_eps_pos() ensures #[trigger] EPS() > 0real {}

pub open spec fn abs_r(x: real) -> real { if x >= 0real { x } else { -x } }
/// principal square root on the reals (unspecified for negative arguments: IEEE gives NaN there)
pub uninterp spec fn sqrt_r(x: real) -> real;
#[verifier::external_body]
pub proof fn axiom_sqrt_r(x: real) requires x >= 0real ensures sqrt_r(x) >= 0real, sqrt_r(x) * sqrt_r(x) == x {}

/// num_traits::Float, restricted to what the extracted code calls
pub trait Float: Sized {
  spec fn fv(&self) -> real;
  fn epsilon() -> (r: Self) ensures r.fv() == EPS();
  fn abs(self) -> (r: Self) ensures r.fv() == abs_r(self.fv());
  fn sqrt(self) -> (r: Self) ensures r.fv() == sqrt_r(self.fv());
  /// num_traits::Float::max / min (on non-NaN arguments: the larger / smaller one)
  fn max(self, other: Self) -> (r: Self) ensures r.fv() == (if self.fv() >= other.fv() { self.fv() } else { other.fv() });
  fn min(self, other: Self) -> (r: Self) ensures r.fv() == (if self.fv() <= other.fv() { self.fv() } else { other.fv() });
}
impl Float for Sc {
  open spec fn fv(&self) -> real { self@ }
  #[verifier::external_body] fn epsilon() -> (r: Self) { unimplemented!() }
  #[verifier::external_body] fn abs(self) -> (r: Self) { unimplemented!() }
  #[verifier::external_body] fn sqrt(self) -> (r: Self) { unimplemented!() }
  #[verifier::external_body] fn max(self, other: Self) -> (r: Self) { unimplemented!() }
  #[verifier::external_body] fn min(self, other: Self) -> (r: Self) { unimplemented!() }
}
impl Sc {
  /// num_traits::FromPrimitive::from_usize: Some(exact value) or None (never a wrong value)
  #[verifier::external_body]
  pub fn from_usize(n: usize) -> (r: Option<Sc>) ensures r matches Some(v) ==> v@ == n as real { unimplemented!() }
}

macro_rules! sc_binop {
  ($Tr:ident, $SpecTr:ident, $m:ident, $obeys:ident, $req:ident, $spec:ident, $ens:expr) => {
    verus! {
    impl vstd::std_specs::ops::$SpecTr<Sc> for Sc {
      open spec fn $obeys() -> bool { false }
      open spec fn $req(self, rhs: Sc) -> bool { true }
      open spec fn $spec(self, rhs: Sc) -> Sc { arbitrary() }
    }
    impl core::ops::$Tr<Sc> for Sc { type Output = Sc;
      #[verifier::external_body] fn $m(self, rhs: Sc) -> (r: Sc) ensures $ens(self@, rhs@, r@) { unimplemented!() } }
    }
  };
}
pub open spec fn ens_mul(a: real, b: real, r: real) -> bool { r == a * b }
pub open spec fn ens_add(a: real, b: real, r: real) -> bool { r == a + b }
pub open spec fn ens_sub(a: real, b: real, r: real) -> bool { r == a - b }
/// IEEE division by zero does not trap; the quotient is specified for non-zero divisors only
pub open spec fn ens_div(a: real, b: real, r: real) -> bool { b != 0real ==> r == a / b }
impl vstd::std_specs::ops::NegSpecImpl for Sc {
  open spec fn obeys_neg_spec() -> bool { false }
  open spec fn neg_req(self) -> bool { true }
  open spec fn neg_spec(self) -> Sc { arbitrary() }
}
impl core::ops::Neg for Sc { type Output = Sc;
  #[verifier::external_body] fn neg(self) -> (r: Sc) ensures r@ == -self@ { unimplemented!() } }
sc_binop!(Mul, MulSpecImpl, mul, obeys_mul_spec, mul_req, mul_spec, ens_mul);
sc_binop!(Add, AddSpecImpl, add, obeys_add_spec, add_req, add_spec, ens_add);
sc_binop!(Sub, SubSpecImpl, sub, obeys_sub_spec, sub_req, sub_spec, ens_sub);
sc_binop!(Div, DivSpecImpl, div, obeys_div_spec, div_req, div_spec, ens_div);


// =============================================================================== f64 (confidence_band_radius)
/// the primitive f64 of `confidence_band_radius` (rule X1: `f64` -> `F64`; a float literal `L` -> `__vp_flit(num, den)`)
pub struct F64 { pub b: u64 }
pub uninterp spec fn f64_val(b: u64) -> real;
impl View for F64 { type V = real; open spec fn view(&self) -> real { f64_val(self.b) } }
impl Clone for F64 { #[verifier::external_body] fn clone(&self) -> (r: Self) ensures r == *self { unimplemented!() } }
impl Copy for F64 {}
#[verifier::external_body]
pub fn __vp_flit(num: u64, den: u64) -> (r: F64) requires den > 0 ensures r@ == (num as real) / (den as real) { unimplemented!() }
/// `n as f64` for a usize n (rule X1): exact under the floats-as-reals idealisation (true for n < 2^53)
#[verifier::external_body]
pub fn __vp_usize_as_f64(n: usize) -> (r: F64) ensures r@ == n as real { unimplemented!() }
impl F64 {
  /// num_traits::FromPrimitive for f64: `n as f64`, always Some
  #[verifier::external_body]
  pub fn from_usize(n: usize) -> (r: Option<F64>) ensures r matches Some(v) && v@ == n as real { unimplemented!() }
}
macro_rules! f64_binop {
  ($Tr:ident, $SpecTr:ident, $m:ident, $obeys:ident, $req:ident, $spec:ident, $ens:expr) => {
    verus! {
    impl vstd::std_specs::ops::$SpecTr<F64> for F64 {
      open spec fn $obeys() -> bool { false }
      open spec fn $req(self, rhs: F64) -> bool { true }
      open spec fn $spec(self, rhs: F64) -> F64 { arbitrary() }
    }
    impl core::ops::$Tr<F64> for F64 { type Output = F64;
      #[verifier::external_body] fn $m(self, rhs: F64) -> (r: F64) ensures $ens(self@, rhs@, r@) { unimplemented!() } }
    }
  };
}
f64_binop!(Sub, SubSpecImpl, sub, obeys_sub_spec, sub_req, sub_spec, ens_sub);
f64_binop!(Mul, MulSpecImpl, mul, obeys_mul_spec, mul_req, mul_spec, ens_mul);
f64_binop!(Add, AddSpecImpl, add, obeys_add_spec, add_req, add_spec, ens_add);
f64_binop!(Div, DivSpecImpl, div, obeys_div_spec, div_req, div_spec, ens_div);
/// statistics/numeric_traits CastF64 (f32 <-> f64 casts are the identity on the reals)
pub trait CastF64: Sized {
  spec fn cv(&self) -> real;
  fn from_f64(value: F64) -> (r: Self) ensures r.cv() == value@;
  fn into_f64(self) -> (r: F64) ensures r@ == self.cv();
}
impl CastF64 for Sc {
  open spec fn cv(&self) -> real { self@ }
  #[verifier::external_body] fn from_f64(value: F64) -> (r: Self) { unimplemented!() }
  #[verifier::external_body] fn into_f64(self) -> (r: F64) { unimplemented!() }
}
/// Student-t quantile (distrs 0.2.3 StudentsT::ppf): uninterpreted, with the three facts C14 uses
pub uninterp spec fn t_ppf(q: real, nu: real) -> real;
#[verifier::external_body]
pub proof fn axiom_t_ppf(q1: real, q2: real, nu: real)
  requires 0real < q1 <= q2 < 1real, nu >= 1real
  ensures t_ppf(q1, nu) <= t_ppf(q2, nu), q1 * 2real >= 1real ==> t_ppf(q1, nu) >= 0real {}
pub mod distrs {
  use super::*;
  pub struct StudentsT;
  impl StudentsT {
    #[verifier::external_body]
    pub fn ppf(q: F64, v: F64) -> (r: F64) ensures r@ == t_ppf(q@, v@) { unimplemented!() }
  }
}

// =============================================================================== dimensions
/// nalgebra::Dim, restricted to value()/from_usize(); `Dyn(e)` is rewritten to `e` (rule X1)
pub trait Dim: Sized {
  spec fn dv(&self) -> nat;
  fn value(&self) -> (r: usize) ensures r == self.dv();
  fn from_usize(n: usize) -> (r: Self) ensures r.dv() == n;
}
impl Dim for usize {
  open spec fn dv(&self) -> nat { *self as nat }
  fn value(&self) -> (r: usize) { *self }
  fn from_usize(n: usize) -> (r: Self) { n }
}
pub struct U1;
pub struct U0;
impl Dim for U1 {
  open spec fn dv(&self) -> nat { 1 }
  fn value(&self) -> (r: usize) { 1 }
  #[verifier::external_body] fn from_usize(n: usize) -> (r: Self) { U1 }
}
impl Dim for U0 {
  open spec fn dv(&self) -> nat { 0 }
  fn value(&self) -> (r: usize) { 0 }
  #[verifier::external_body] fn from_usize(n: usize) -> (r: Self) { U0 }
}

// =============================================================================== matrices
/// "the float matrix this view stands for has only finite entries" (floats are reals in this proof; a
/// non-finite float has no real value, so this predicate is all the proof knows about finiteness)
pub uninterp spec fn fin_m(a: MatR) -> bool;
/// nalgebra OMatrix<_, Dyn, Dyn> and OVector<_, Dyn> (one stub; a vector is a matrix with one column)
#[verifier::external_body]
pub struct DMatrix { _p: core::marker::PhantomData<u8> }
pub type DVector = DMatrix;
impl View for DMatrix { type V = MatR; uninterp spec fn view(&self) -> MatR; }
impl DMatrix {
  /// set of initialised columns (ghost); everything nalgebra hands out is fully initialised except `uninit`
  pub uninterp spec fn initd(&self) -> Set<int>;
  pub open spec fn all_init(&self) -> bool { forall |j: int| 0 <= j < self@.c ==> #[trigger] self.initd().contains(j) }
  /// every entry is a finite IEEE value; established only by `is_all_finite` (verified from its real text in unit `core`)
  pub open spec fn fin(&self) -> bool { fin_m(self@) }
  pub open spec fn ok(&self) -> bool { self.all_init() }
}
impl DMatrix {
  /// "entry i (column-major linear index, as `iter()` and `Index<usize>` count) is a finite IEEE value" (ghost)
  pub uninterp spec fn efin(&self, i: int) -> bool;
}
/// the matrix-level finiteness predicate is the conjunction of the entry-level one (definition of "all entries finite")
#[verifier::external_body]
pub proof fn axiom_fin_entrywise(m: &DMatrix)
  ensures m.fin() <==> (forall |i: int| 0 <= i < m@.r * m@.c ==> #[trigger] m.efin(i)) {}
/// nalgebra Index<usize> (base/indexing.rs): the i-th element in column-major order; panics when out of bounds.
/// `matrix.iter()` visits exactly these elements in this order (rule X15).
impl vstd::std_specs::core::IndexSpecImpl<usize> for DMatrix {
  open spec fn index_req(&self, index: &usize) -> bool { self.ok() && *index < self@.r * self@.c }
}
impl core::ops::Index<usize> for DMatrix { type Output = Sc;
  #[verifier::external_body] fn index(&self, index: usize) -> (r: &Sc)
    ensures r.fin() == self.efin(index as int),
            self@.c == 1 ==> r@ == self@.e[0][index as int],
            self@.r >= 1 ==> r@ == self@.e[(index as int) / (self@.r as int)][(index as int) % (self@.r as int)]
  { unimplemented!() } }
/// representation facts of every allocated matrix: rectangular, and r*c elements fit the address space
#[verifier::external_body]
pub broadcast proof fn axiom_dm_wf(m: &DMatrix)
  ensures (#[trigger] m@).wf(), m@.r * m@.c <= usize::MAX, m@.r <= usize::MAX, m@.c <= usize::MAX {}

/// a mutably borrowed column of a matrix (rule X4: take column k / run body / put it back)
#[verifier::external_body]
pub struct ColMut { _p: core::marker::PhantomData<u8> }
impl View for ColMut { type V = Seq<real>; uninterp spec fn view(&self) -> Seq<real>; }
impl ColMut {
  pub uninterp spec fn init(&self) -> bool;
}

/// nalgebra MatrixView / VectorView (immutable borrowed view of any shape)
#[verifier::external_body]
pub struct MView { _p: core::marker::PhantomData<u8> }
impl View for MView { type V = MatR; uninterp spec fn view(&self) -> MatR; }
impl Clone for MView { #[verifier::external_body] fn clone(&self) -> (r: Self) ensures r@ == self@ { unimplemented!() } }
impl Copy for MView {}
#[verifier::external_body]
pub broadcast proof fn axiom_mv_wf(m: &MView)
  ensures (#[trigger] m@).wf(), m@.r * m@.c <= usize::MAX, m@.r <= usize::MAX, m@.c <= usize::MAX {}

impl Clone for DMatrix {
  #[verifier::external_body] fn clone(&self) -> (r: Self)
    ensures r@ == self@, r.initd() == self.initd() { unimplemented!() }
}

impl DMatrix {
  #[verifier::external_body] pub fn nrows(&self) -> (n: usize) ensures n == self@.r { unimplemented!() }
  #[verifier::external_body] pub fn ncols(&self) -> (n: usize) ensures n == self@.c { unimplemented!() }
  /// number of elements (nalgebra base/matrix.rs `len`)
  /// (the second and third clause are arithmetic consequences of the first, spelled out because the solver does not do
  /// nonlinear arithmetic unprompted: `len() == 0` must be as good as `is_empty()`)
  #[verifier::external_body] pub fn len(&self) -> (n: usize)
    ensures n == self@.r * self@.c, (n == 0) == (self@.r == 0 || self@.c == 0), self@.c == 1 ==> n == self@.r { unimplemented!() }
  #[verifier::external_body] pub fn is_empty(&self) -> (b: bool) ensures b == (self@.r == 0 || self@.c == 0) { unimplemented!() }
  /// `unsafe { Matrix::uninit(r, c).assume_init() }` after rule X5: nothing is initialised
  #[verifier::external_body]
  pub fn uninit(r: usize, c: usize) -> (m: DMatrix)
    ensures m@.r == r, m@.c == c, m.initd() == Set::<int>::empty() { unimplemented!() }
  #[verifier::external_body]
  pub fn zeros(n: usize) -> (m: DMatrix) ensures m@ == zeros(n as nat, 1), m.ok() { unimplemented!() }
  #[verifier::external_body]
  pub fn zeros_generic<R: Dim, C: Dim>(r: R, c: C) -> (m: DMatrix)
    ensures m@ == zeros(r.dv(), c.dv()), m.ok() { unimplemented!() }
  #[verifier::external_body]
  pub fn transpose(&self) -> (m: DMatrix) requires self.ok() ensures m@ == mtr(self@), m.ok() { unimplemented!() }
  /// same column-major data under a new shape (nalgebra base/edition.rs reshape_generic; asserts equal element count)
  #[verifier::external_body]
  pub fn reshape_generic<R: Dim, C: Dim>(self, r: R, c: C) -> (m: DMatrix)
    requires self.ok(), r.dv() * c.dv() == self@.r * self@.c
    ensures m.ok(), m@.r == r.dv(), m@.c == c.dv(), vecm(m@) == vecm(self@) { unimplemented!() }
  #[verifier::external_body]
  pub fn as_view(&self) -> (v: MView) requires self.ok() ensures v@ == self@ { unimplemented!() }
  #[verifier::external_body]
  pub fn column(&self, j: usize) -> (v: MView) requires self.ok(), j < self@.c ensures v@ == col(self@, j as int) { unimplemented!() }

  /// nalgebra base/matrix_view.rs `columns(first, n)` / `rows(first, n)`: a view of that block (asserts it lies inside)
  #[verifier::external_body]
  pub fn columns(&self, first: usize, n: usize) -> (v: MView) requires self.ok(), first + n <= self@.c
    ensures v@ == mat_new(self@.r, n as nat, |i: int, j: int| self@.get(i, first + j)) { unimplemented!() }
  #[verifier::external_body]
  pub fn rows(&self, first: usize, n: usize) -> (v: MView) requires self.ok(), first + n <= self@.r
    ensures v@ == mat_new(n as nat, self@.c, |i: int, j: int| self@.get(first + i, j)) { unimplemented!() }

  // ---- rule X4 borrow encoding
  #[verifier::external_body]
  pub fn __take_column(&mut self, k: usize) -> (c: ColMut)
    requires k < old(self)@.c
    ensures final(self)@ == old(self)@, final(self).initd() == old(self).initd(),
            c@ == old(self)@.e[k as int], c.init() == old(self).initd().contains(k as int) { unimplemented!() }
  #[verifier::external_body]
  pub fn __put_column(&mut self, k: usize, c: ColMut)
    requires k < old(self)@.c, c@.len() == old(self)@.r
    ensures final(self)@.r == old(self)@.r, final(self)@.c == old(self)@.c,
            final(self)@.e == old(self)@.e.update(k as int, c@),
            final(self).initd() == (if c.init() { old(self).initd().insert(k as int) } else { old(self).initd().remove(k as int) })
  { unimplemented!() }
}
impl ColMut {
  /// nalgebra copy_from: asserts equal shapes, then overwrites every element
  #[verifier::external_body]
  pub fn copy_from(&mut self, src: &DMatrix)
    requires src.ok(), src@.c == 1, src@.r == old(self)@.len()
    ensures final(self)@ == src@.e[0], final(self).init() { unimplemented!() }
}

impl ColMut {
  /// nalgebra component_mul_assign (base/componentwise.rs): asserts equal shapes; self[i] <- self[i] * rhs[i]
  #[verifier::external_body]
  pub fn component_mul_assign(&mut self, rhs: &DMatrix)
    requires old(self).init(), rhs.ok(), rhs@.c == 1, rhs@.r == old(self)@.len()
    ensures final(self).init(), final(self)@.len() == old(self)@.len(),
            forall |i: int| 0 <= i < old(self)@.len() ==> #[trigger] final(self)@[i] == rhs@.e[0][i] * old(self)@[i]
  { unimplemented!() }
}

impl DMatrix {
  /// nalgebra diagonal(): asserts square; the diagonal as a column vector
  #[verifier::external_body]
  pub fn diagonal(&self) -> (d: DMatrix)
    requires self.ok(), self@.r == self@.c
    ensures d.ok(), d@ == mat_new(self@.r, 1, |i: int, j: int| self@.get(i, i)) { unimplemented!() }
  /// nalgebra try_inverse (linalg/inverse.rs): asserts square; Some(B) => A B = B A = I (float rounding not modelled)
  #[verifier::external_body]
  pub fn try_inverse(self) -> (r: Option<DMatrix>)
    requires self.ok(), self@.r == self@.c
    ensures r matches Some(b) ==> b.ok() && b@.wf() && b@.r == self@.r && b@.c == self@.c
              && mmul(self@, b@) == ident(self@.r) && mmul(b@, self@) == ident(self@.r) { unimplemented!() }
  #[verifier::external_body]
  pub fn norm_squared(&self) -> (r: Sc) requires self.ok() ensures r@ == frob2(self@) { unimplemented!() }
  /// nalgebra dot: asserts equal shapes; column vectors here
  #[verifier::external_body]
  pub fn dot(&self, rhs: &DMatrix) -> (r: Sc)
    requires self.ok(), rhs.ok(), self@.c == 1, rhs@.c == 1, self@.r == rhs@.r
    ensures r@ == dot(self@, rhs@) { unimplemented!() }
  #[verifier::external_body]
  pub fn row(&self, i: usize) -> (v: MView) requires self.ok(), i < self@.r ensures v@ == row_m(self@, i as int) { unimplemented!() }
  #[verifier::external_body]
  pub fn from_element(r: usize, c: usize, v: Sc) -> (m: DMatrix)
    ensures m.ok(), m@ == mat_new(r as nat, c as nat, |i: int, j: int| v@) { unimplemented!() }
  /// rule X4(d..f): element i of a column vector through `iter_mut()` / `iter()`
  #[verifier::external_body]
  pub fn set_elem(&mut self, i: usize, v: Sc)
    requires old(self).ok(), old(self)@.c == 1, i < old(self)@.r
    ensures final(self).ok(), final(self)@.r == old(self)@.r, final(self)@.c == 1,
            final(self)@.e == old(self)@.e.update(0, old(self)@.e[0].update(i as int, v@)) { unimplemented!() }
  #[verifier::external_body]
  pub fn get_elem(&self, i: usize) -> (v: Sc)
    requires self.ok(), self@.c == 1, i < self@.r
    ensures v@ == self@.e[0][i as int] { unimplemented!() }
  /// rule X10: `M[(i, j)] = v`
  #[verifier::external_body]
  pub fn set(&mut self, i: usize, j: usize, v: Sc)
    requires old(self).ok(), i < old(self)@.r, j < old(self)@.c
    ensures final(self).ok(), final(self)@.r == old(self)@.r, final(self)@.c == old(self)@.c,
            final(self)@.e == old(self)@.e.update(j as int, old(self)@.e[j as int].update(i as int, v@)) { unimplemented!() }
  /// rule X10: `M.column_mut(j).copy_from(&v)` (nalgebra set_column is defined as exactly this; copy_from asserts the shape)
  #[verifier::external_body]
  pub fn set_column(&mut self, j: usize, v: &MView)
    requires old(self).ok(), j < old(self)@.c, v@.c == 1, v@.r == old(self)@.r
    ensures final(self).ok(), final(self)@.r == old(self)@.r, final(self)@.c == old(self)@.c,
            final(self)@.e == old(self)@.e.update(j as int, v@.e[0]) { unimplemented!() }
}
impl MView {
  #[verifier::external_body] pub fn nrows(&self) -> (n: usize) ensures n == self@.r { unimplemented!() }
  #[verifier::external_body] pub fn ncols(&self) -> (n: usize) ensures n == self@.c { unimplemented!() }
  #[verifier::external_body] pub fn transpose(&self) -> (m: DMatrix) ensures m@ == mtr(self@), m.ok() { unimplemented!() }
  #[verifier::external_body]
  pub fn column(&self, j: usize) -> (v: MView) requires j < self@.c ensures v@ == col(self@, j as int) { unimplemented!() }
}
/// nalgebra Index<usize> on a view: the i-th element in column-major order; panics when out of bounds
impl vstd::std_specs::core::IndexSpecImpl<usize> for MView {
  open spec fn index_req(&self, index: &usize) -> bool { *index < self@.r * self@.c }
}
impl core::ops::Index<usize> for MView { type Output = Sc;
  #[verifier::external_body] fn index(&self, index: usize) -> (r: &Sc)
    ensures self@.c == 1 ==> r@ == self@.e[0][index as int],
            self@.r >= 1 ==> r@ == self@.e[(index as int) / (self@.r as int)][(index as int) % (self@.r as int)]
  { unimplemented!() } }
/// nalgebra Index<(usize, usize)>: panics when out of bounds
impl vstd::std_specs::core::IndexSpecImpl<(usize, usize)> for DMatrix {
  open spec fn index_req(&self, index: &(usize, usize)) -> bool { self.ok() && index.0 < self@.r && index.1 < self@.c }
}
impl core::ops::Index<(usize, usize)> for DMatrix { type Output = Sc;
  #[verifier::external_body] fn index(&self, index: (usize, usize)) -> (r: &Sc) ensures r@ == self@.get(index.0 as int, index.1 as int) { unimplemented!() } }
/// matrix * scalar
impl vstd::std_specs::ops::MulSpecImpl<Sc> for DMatrix {
  open spec fn obeys_mul_spec() -> bool { false }
  open spec fn mul_req(self, rhs: Sc) -> bool { self.ok() }
  open spec fn mul_spec(self, rhs: Sc) -> DMatrix { arbitrary() }
}
impl core::ops::Mul<Sc> for DMatrix { type Output = DMatrix;
  #[verifier::external_body] fn mul(self, rhs: Sc) -> (r: DMatrix) ensures r@ == scale(self@, rhs@), r.ok() { unimplemented!() } }
/// num_traits::One::one
pub trait One: Sized { spec fn ov(&self) -> real; fn one() -> (r: Self) ensures r.ov() == 1real; }
impl One for Sc { open spec fn ov(&self) -> real { self@ } #[verifier::external_body] fn one() -> (r: Self) { unimplemented!() } }
/// num_traits::Zero::zero
pub trait Zero: Sized { spec fn zv(&self) -> real; fn zero() -> (r: Self) ensures r.zv() == 0real; }
impl Zero for Sc { open spec fn zv(&self) -> real { self@ } #[verifier::external_body] fn zero() -> (r: Self) { unimplemented!() } }


impl DMatrix {
  /// nalgebra tr_mul / ad_mul (reals): self^T * rhs; asserts self.nrows == rhs.nrows
  #[verifier::external_body]
  pub fn tr_mul(&self, rhs: &DMatrix) -> (r: DMatrix) requires self.ok(), rhs.ok(), self@.r == rhs@.r ensures r@ == mmul(mtr(self@), rhs@), r.ok() { unimplemented!() }
  #[verifier::external_body]
  pub fn ad_mul(&self, rhs: &DMatrix) -> (r: DMatrix) requires self.ok(), rhs.ok(), self@.r == rhs@.r ensures r@ == mmul(mtr(self@), rhs@), r.ok() { unimplemented!() }
  #[verifier::external_body]
  pub fn clone_owned(&self) -> (r: DMatrix) requires self.ok() ensures r@ == self@, r.ok() { unimplemented!() }
  #[verifier::external_body]
  pub fn into_owned(self) -> (r: DMatrix) requires self.ok() ensures r@ == self@, r.ok() { unimplemented!() }
  #[verifier::external_body]
  pub fn scale(&self, t: Sc) -> (r: DMatrix) requires self.ok() ensures r@ == scale(self@, t@), r.ok() { unimplemented!() }
  #[verifier::external_body]
  pub fn is_square(&self) -> (b: bool) ensures b == (self@.r == self@.c) { unimplemented!() }
  #[verifier::external_body]
  pub fn shape(&self) -> (s: (usize, usize)) ensures s.0 == self@.r, s.1 == self@.c { unimplemented!() }
  #[verifier::external_body]
  pub fn norm(&self) -> (r: Sc) requires self.ok() ensures r@ == sqrt_r(frob2(self@)) { unimplemented!() }
  /// nalgebra zeros(r, c) is spelled DMatrix::zeros(r, c); the one-argument form above is DVector::zeros(n)
  #[verifier::external_body]
  pub fn zeros2(r: usize, c: usize) -> (m: DMatrix) ensures m@ == zeros(r as nat, c as nat), m.ok() { unimplemented!() }
  /// nalgebra try_svd: `eps` is the CONVERGENCE TOLERANCE of the QR iteration (not a truncation threshold) and `max_niter` its
  /// budget (0 = unlimited); None if it does not converge. The factors are the decomposition of the input only up to
  /// that tolerance: exactness is promised only up to the tolerance nalgebra's own `svd()` uses (5 * machine epsilon).
  /// TERMINATION (C08): with `max_niter == 0` the iteration is unbounded and stops only when an off-diagonal entry falls below
  /// `eps` relative to its neighbours; that it ever does is ASSUMED only for the tolerance nalgebra's own `svd()` uses
  /// (5 * machine epsilon, svd.rs `new`) or a looser one. A tighter tolerance (0, NaN, anything below) with an unbounded
  /// budget need not return -- observed on the real code -- so it is a precondition here.
  #[verifier::external_body]
  pub fn try_svd(self, compute_u: bool, compute_v: bool, eps: Sc, max_niter: usize) -> (r: Option<SVD>)
    requires self.ok(), self@.r >= 1, self@.c >= 1, self.fin(),
             max_niter >= 1 || eps@ >= 5real * EPS(),
    ensures r matches Some(s) ==> ((compute_u && compute_v && 0real <= eps@ <= 5real * EPS()) ==> s.is_of(self@)
              && svd_ok(self@, svd_u(self@), svd_s(self@), svd_vt(self@))),
            max_niter == 0 ==> r.is_some(),   // None is returned only when a positive iteration budget is exhausted
  { unimplemented!() }
  /// nalgebra pseudo_inverse(eps) (linalg/pinv.rs -> svd.rs pseudo_inverse): eps < 0 => Err; singular values <= eps are
  /// treated as zero, so this is the inverse only when no singular value is truncated
  #[verifier::external_body]
  pub fn pseudo_inverse(self, eps: Sc) -> (r: Result<DMatrix, &'static str>)
    requires self.ok(), self@.r >= 1, self@.c >= 1,
    ensures r matches Ok(b) ==> b.ok() && b@ == mmul(mtr(svd_vt(self@)), mmul(diagm(pinv_diag(svd_s(self@), eps@)), mtr(svd_u(self@)))),
            eps@ < 0real ==> r.is_err(),
  { unimplemented!() }
}
impl SVD {
  /// nalgebra `SVD::try_new(matrix, compute_u, compute_v, eps, max_niter)` (svd.rs): what `Matrix::try_svd` calls
  #[verifier::external_body]
  pub fn try_new(matrix: DMatrix, compute_u: bool, compute_v: bool, eps: Sc, max_niter: usize) -> (r: Option<SVD>)
    requires matrix.ok(), matrix@.r >= 1, matrix@.c >= 1, matrix.fin(),
             max_niter >= 1 || eps@ >= 5real * EPS(),
    ensures r matches Some(s) ==> ((compute_u && compute_v && 0real <= eps@ <= 5real * EPS()) ==> s.is_of(matrix@)
              && svd_ok(matrix@, svd_u(matrix@), svd_s(matrix@), svd_vt(matrix@))),
            max_niter == 0 ==> r.is_some(),
  { unimplemented!() }
  /// nalgebra `SVD::new(matrix, compute_u, compute_v)`: what `Matrix::svd` calls
  #[verifier::external_body]
  pub fn new(matrix: DMatrix, compute_u: bool, compute_v: bool) -> (r: SVD)
    requires matrix.ok(), matrix@.r >= 1, matrix@.c >= 1, matrix.fin(),
    ensures compute_u && compute_v ==> r.is_of(matrix@),
            svd_ok(matrix@, svd_u(matrix@), svd_s(matrix@), svd_vt(matrix@)),
  { unimplemented!() }
  /// svd.rs pseudo_inverse: v_t^T diag(1/s_i if s_i > eps else 0) u^T
  #[verifier::external_body]
  pub fn pseudo_inverse(self, eps: Sc) -> (r: Result<DMatrix, &'static str>)
    ensures (eps@ >= 0real && self.u.is_some() && self.v_t.is_some()) ==> (r matches Ok(b) && b.ok()
              && b@ == mmul(mtr(self.v_t.unwrap()@), mmul(diagm(pinv_diag(self.singular_values@.e[0], eps@)), mtr(self.u.unwrap()@)))),
  { unimplemented!() }
}

#[verifier::external_body]
pub fn __vp_ok_unit<E>() -> (r: Result<(), E>) ensures r.is_ok() { unimplemented!() }
pub fn __vp_succ(k: usize) -> (r: usize) requires k < usize::MAX ensures r == k + 1 { k + 1 }
/// bound of `.skip(a).take(b)` over n items: min(n, a + b) without overflow
pub fn __vp_take_bound(n: usize, a: usize, b: usize) -> (r: usize) ensures r <= n, (a + b >= n) ==> r == n, ((a + b) < n) ==> r == a + b
{ if b >= n || a >= n - b { n } else { a + b } }
pub fn __vp_min(a: usize, b: usize) -> (r: usize) ensures r <= a, r <= b, r == a || r == b { if a <= b { a } else { b } }

/// rule X6: every assert!/assert_eq!/debug_assert! site is an obligation, every panic! site must be unreachable
pub fn must_hold(c: bool) requires c {}
pub fn unreachable_here() requires false {}

// ---- binary operators between the owned / borrowed combinations that occur (nalgebra base/ops.rs: dimension
//      agreement is asserted, otherwise panic; result = the mathematical product / difference)
pub open spec fn mul_ok(a: MatR, b: MatR) -> bool { a.c == b.r }
pub open spec fn sub_ok(a: MatR, b: MatR) -> bool { a.r == b.r && a.c == b.c }

macro_rules! mat_binop {
  ($Tr:ident, $SpecTr:ident, $m:ident, $obeys:ident, $req:ident, $spec:ident, $L:ty, $R:ty, $shape:ident, $f:ident, [$($lt:tt),*]) => {
    verus! {
    impl<$($lt),*> vstd::std_specs::ops::$SpecTr<$R> for $L {
      open spec fn $obeys() -> bool { false }
      open spec fn $req(self, rhs: $R) -> bool { $shape(self@, rhs@) && self.ok() && rhs.ok() }
      open spec fn $spec(self, rhs: $R) -> DMatrix { arbitrary() }
    }
    impl<$($lt),*> core::ops::$Tr<$R> for $L { type Output = DMatrix;
      #[verifier::external_body] fn $m(self, rhs: $R) -> (r: DMatrix) ensures r@ == $f(self@, rhs@), r.ok() { unimplemented!() } }
    }
  };
}
impl MView { pub open spec fn ok(&self) -> bool { true } }
mat_binop!(Mul, MulSpecImpl, mul, obeys_mul_spec, mul_req, mul_spec, &'a DMatrix, &'b DMatrix, mul_ok, mmul, ['a, 'b]);
mat_binop!(Sub, SubSpecImpl, sub, obeys_sub_spec, sub_req, sub_spec, &'a DMatrix, &'b DMatrix, sub_ok, msub, ['a, 'b]);
mat_binop!(Add, AddSpecImpl, add, obeys_add_spec, add_req, add_spec, &'a DMatrix, &'b DMatrix, sub_ok, madd, ['a, 'b]);
mat_binop!(Mul, MulSpecImpl, mul, obeys_mul_spec, mul_req, mul_spec, &'a DMatrix, DMatrix, mul_ok, mmul, ['a]);
mat_binop!(Sub, SubSpecImpl, sub, obeys_sub_spec, sub_req, sub_spec, &'a DMatrix, DMatrix, sub_ok, msub, ['a]);
mat_binop!(Add, AddSpecImpl, add, obeys_add_spec, add_req, add_spec, &'a DMatrix, DMatrix, sub_ok, madd, ['a]);
mat_binop!(Mul, MulSpecImpl, mul, obeys_mul_spec, mul_req, mul_spec, DMatrix, &'b DMatrix, mul_ok, mmul, ['b]);
mat_binop!(Sub, SubSpecImpl, sub, obeys_sub_spec, sub_req, sub_spec, DMatrix, &'b DMatrix, sub_ok, msub, ['b]);
mat_binop!(Add, AddSpecImpl, add, obeys_add_spec, add_req, add_spec, DMatrix, &'b DMatrix, sub_ok, madd, ['b]);
mat_binop!(Mul, MulSpecImpl, mul, obeys_mul_spec, mul_req, mul_spec, DMatrix, DMatrix, mul_ok, mmul, []);
mat_binop!(Sub, SubSpecImpl, sub, obeys_sub_spec, sub_req, sub_spec, DMatrix, DMatrix, sub_ok, msub, []);
mat_binop!(Add, AddSpecImpl, add, obeys_add_spec, add_req, add_spec, DMatrix, DMatrix, sub_ok, madd, []);
mat_binop!(Mul, MulSpecImpl, mul, obeys_mul_spec, mul_req, mul_spec, DMatrix, MView, mul_ok, mmul, []);
mat_binop!(Sub, SubSpecImpl, sub, obeys_sub_spec, sub_req, sub_spec, DMatrix, MView, sub_ok, msub, []);
mat_binop!(Add, AddSpecImpl, add, obeys_add_spec, add_req, add_spec, DMatrix, MView, sub_ok, madd, []);
mat_binop!(Mul, MulSpecImpl, mul, obeys_mul_spec, mul_req, mul_spec, &'a DMatrix, MView, mul_ok, mmul, ['a]);
mat_binop!(Sub, SubSpecImpl, sub, obeys_sub_spec, sub_req, sub_spec, &'a DMatrix, MView, sub_ok, msub, ['a]);
mat_binop!(Add, AddSpecImpl, add, obeys_add_spec, add_req, add_spec, &'a DMatrix, MView, sub_ok, madd, ['a]);
mat_binop!(Mul, MulSpecImpl, mul, obeys_mul_spec, mul_req, mul_spec, MView, DMatrix, mul_ok, mmul, []);
mat_binop!(Sub, SubSpecImpl, sub, obeys_sub_spec, sub_req, sub_spec, MView, DMatrix, sub_ok, msub, []);
mat_binop!(Add, AddSpecImpl, add, obeys_add_spec, add_req, add_spec, MView, DMatrix, sub_ok, madd, []);
mat_binop!(Mul, MulSpecImpl, mul, obeys_mul_spec, mul_req, mul_spec, MView, &'b DMatrix, mul_ok, mmul, ['b]);
mat_binop!(Sub, SubSpecImpl, sub, obeys_sub_spec, sub_req, sub_spec, MView, &'b DMatrix, sub_ok, msub, ['b]);
mat_binop!(Add, AddSpecImpl, add, obeys_add_spec, add_req, add_spec, MView, &'b DMatrix, sub_ok, madd, ['b]);
mat_binop!(Mul, MulSpecImpl, mul, obeys_mul_spec, mul_req, mul_spec, MView, MView, mul_ok, mmul, []);
mat_binop!(Sub, SubSpecImpl, sub, obeys_sub_spec, sub_req, sub_spec, MView, MView, sub_ok, msub, []);
mat_binop!(Add, AddSpecImpl, add, obeys_add_spec, add_req, add_spec, MView, MView, sub_ok, madd, []);

/// unary minus
impl vstd::std_specs::ops::NegSpecImpl for DMatrix {
  open spec fn obeys_neg_spec() -> bool { false }
  open spec fn neg_req(self) -> bool { self.ok() }
  open spec fn neg_spec(self) -> DMatrix { arbitrary() }
}
impl core::ops::Neg for DMatrix { type Output = DMatrix;
  #[verifier::external_body] fn neg(self) -> (r: DMatrix) ensures r@ == scale(self@, -1real), r.ok() { unimplemented!() } }

// =============================================================================== SVD
// nalgebra linalg/svd.rs. `svd(true, true)` = SVD::new = try_new(.., eps, max_niter = 0).unwrap() followed by
// sort_by_singular_values: on a non-finite input the iteration need not terminate / the sort panics on NaN
// (reproduced, DESIGN.md section 9), hence the finiteness precondition. The factors are deterministic
// functions of the input value.
pub uninterp spec fn svd_u(a: MatR) -> MatR;
pub uninterp spec fn svd_s(a: MatR) -> Seq<real>;
pub uninterp spec fn svd_vt(a: MatR) -> MatR;
#[verifier::external_body]
pub proof fn axiom_nalgebra_svd(a: MatR)
  requires a.wf(), a.r >= 1, a.c >= 1,
  ensures svd_ok(a, svd_u(a), svd_s(a), svd_vt(a)) {}

pub struct SVD {
  pub u: Option<DMatrix>,
  pub v_t: Option<DMatrix>,
  pub singular_values: DMatrix,
}
/// number of entries of `sv` that are greater than `eps`
pub open spec fn rank_spec(sv: Seq<real>, eps: real) -> nat decreases sv.len() {
  if sv.len() == 0 { 0 } else { rank_spec(sv.drop_last(), eps) + (if sv.last() > eps { 1nat } else { 0nat }) }
}
pub proof fn lemma_rank_le(sv: Seq<real>, eps: real) ensures rank_spec(sv, eps) <= sv.len() decreases sv.len() {
  if sv.len() > 0 { lemma_rank_le(sv.drop_last(), eps); }
}
impl SVD {
  /// svd.rs `rank(eps)`: asserts eps >= 0; counts the singular values greater than eps
  #[verifier::external_body]
  pub fn rank(&self, eps: Sc) -> (r: usize) requires eps@ >= 0real
    ensures self.singular_values@.c == 1 ==> r == rank_spec(self.singular_values@.e[0], eps@), r <= self.singular_values@.r { unimplemented!() }
  /// this value is the decomposition nalgebra computes for `a`
  pub open spec fn is_of(&self, a: MatR) -> bool {
    &&& self.u matches Some(u) && u@ == svd_u(a) && u.ok()
    &&& self.v_t matches Some(vt) && vt@ == svd_vt(a) && vt.ok()
    &&& self.singular_values@.c == 1 && self.singular_values@.e[0] == svd_s(a) && self.singular_values.ok()
  }
  /// svd.rs:602-641. eps < 0 => Err; u or v_t missing => Err; otherwise
  /// v_t^T * (unscale-or-zero(u^T b)) with `val > eps` deciding (u.ad_mul(b) asserts u.nrows == b.nrows)
  #[verifier::external_body]
  pub fn solve(&self, b: &DMatrix, eps: Sc) -> (r: Result<DMatrix, &'static str>)
    requires b.ok(), self.u matches Some(u) ==> u@.r == b@.r,
    ensures
      (eps@ >= 0real && self.u.is_some() && self.v_t.is_some()) ==> (r matches Ok(x) &&
          x@ == solve_spec(self.u.unwrap()@, self.singular_values@.e[0], self.v_t.unwrap()@, b@, eps@) && x.ok()),
      eps@ < 0real ==> r.is_err(),
  { unimplemented!() }
}
impl DMatrix {
  #[verifier::external_body]
  pub fn svd(self, compute_u: bool, compute_v: bool) -> (r: SVD)
    requires self.ok(), self@.r >= 1, self@.c >= 1, self.fin(),
    ensures compute_u && compute_v ==> r.is_of(self@),
            svd_ok(self@, svd_u(self@), svd_s(self@), svd_vt(self@)),
  { unimplemented!() }
}


// =============================================================================== user closures (rule X7)
/// `Box<dyn Fn(&DVector<S>, &[S]) -> DVector<S> + Send + Sync>`: an opaque callable with a ghost function.
/// Panics inside user closures are out of scope. The result is some fully initialised column vector
/// (of ANY length: checking it is the model's job, C17).
#[verifier::external_body]
pub struct BaseFunc { _p: core::marker::PhantomData<u8> }
pub open spec fn sc_seq(s: Seq<Sc>) -> Seq<real> { Seq::new(s.len(), |i: int| s[i]@) }
impl BaseFunc {
  pub uninterp spec fn g_call(&self, x: MatR, params: Seq<real>) -> MatR;
  #[verifier::external_body]
  pub fn call(&self, location: &DMatrix, parameters: &[Sc]) -> (r: DMatrix)
    requires location.ok(), self.g_req(location@, sc_seq(parameters@))
    ensures r@ == self.g_call(location@, sc_seq(parameters@)), r.ok(), r@.c == 1 { unimplemented!() }
}
impl DMatrix {
  /// nalgebra as_slice of a column vector: its elements in order
  #[verifier::external_body]
  pub fn as_slice(&self) -> (s: &[Sc]) requires self.ok(), self@.c == 1 ensures sc_seq(s@) == self@.e[0] { unimplemented!() }
  /// nalgebra DVector::from_vec
  #[verifier::external_body]
  pub fn from_vec(v: Vec<Sc>) -> (m: DMatrix) ensures m.ok(), m@.c == 1, m@.r == v@.len(), m@.e[0] == sc_seq(v@) { unimplemented!() }
}


// =============================================================================== names (rule X1: String / str)
/// `String` and `str` -> the abstract name type: an immutable sequence of characters. Only the operations below exist;
/// each is an assumed contract on the std function it stands for. `==` is equality of the character sequences.
pub struct Name { pub v: Ghost<Seq<char>> }
impl View for Name { type V = Seq<char>; open spec fn view(&self) -> Seq<char> { self.v@ } }
impl Clone for Name { #[verifier::external_body] fn clone(&self) -> (r: Self) ensures r == *self { unimplemented!() } }
impl vstd::std_specs::cmp::PartialEqSpecImpl for Name {
  open spec fn obeys_eq_spec() -> bool { true }
  open spec fn eq_spec(&self, other: &Name) -> bool { self@ == other@ }
}
impl PartialEq for Name { #[verifier::external_body] fn eq(&self, other: &Name) -> (r: bool) { unimplemented!() } }
impl Eq for Name {}
impl core::hash::Hash for Name { #[verifier::external_body] fn hash<H: core::hash::Hasher>(&self, state: &mut H) { unimplemented!() } }
/// `<&str as Into<String>>::into` / `String::from(&str)` / `to_string()`: the same characters
#[verifier::external_body]
pub fn __vp_name_from_ref(s: &Name) -> (r: Name) ensures r == *s { unimplemented!() }
/// `AsRef<str>::as_ref` on a string type: the same characters
#[verifier::external_body]
pub fn __vp_as_ref(s: &Name) -> (r: &Name) ensures r == s { unimplemented!() }

// =============================================================================== model builder support (unit mbuilder)
/// `BasisFunction<ScalarType, ArgList>` (src/basis_function/mod.rs): a user callable with ARGUMENT_COUNT scalar arguments.
/// Its implementations for arities 1..10 are generated by macro_rules! (never seen by Verus): `eval` panics unless
/// `params.len() == ARGUMENT_COUNT` and hands position n of the slice to argument n -- proved by the ten loop-free
/// Kani harnesses `dispatch_arity_n`. `bf_call` is the ghost function of the user's callable (panics inside it: out of scope).
pub trait BasisFunction<ArgList>: Sized {
  spec fn bf_call(&self, x: MatR, args: Seq<real>) -> MatR;
  const ARGUMENT_COUNT: usize;
  fn eval(&self, x: &DMatrix, params: &[Sc]) -> (r: DMatrix)
    requires x.ok(), params@.len() == Self::ARGUMENT_COUNT,
    ensures r@ == self.bf_call(x@, sc_seq(params@)), r.ok(), r@.c == 1;
}
/// `F: Fn(&DVector<S>) -> DVector<S>` (the callable of `invariant_function`): a user callable of the independent variable
/// only; `if_call` is its ghost function (panics inside it: out of scope)
pub trait InvariantFn: Sized {
  spec fn if_call(&self, x: MatR) -> MatR;
  fn call(&self, x: &DMatrix) -> (r: DMatrix)
    requires x.ok(),
    ensures r@ == self.if_call(x@), r.ok(), r@.c == 1;
}
impl BaseFunc {
  /// when may the boxed callable be invoked without panicking (slice long enough for the wrapped index mapping)
  pub uninterp spec fn g_req(&self, x: MatR, params: Seq<real>) -> bool;
  /// rule X7b: `Box::new(closure)` coerced to the boxed dyn Fn. The boxed callable behaves as the closure does:
  /// `g` is the ghost function the closure was PROVED to compute, `rq` the precondition it was proved under.
  /// Assumed: a closure returns for every argument satisfying its precondition.
  #[verifier::external_body]
  pub fn from_closure<F: Fn(&DMatrix, &[Sc]) -> DMatrix>(f: F, Ghost(g): Ghost<spec_fn(MatR, Seq<real>) -> MatR>, Ghost(rq): Ghost<spec_fn(MatR, Seq<real>) -> bool>) -> (r: BaseFunc)
    requires
      forall |x: &DMatrix, p: &[Sc]| (x.ok() && #[trigger] rq(x@, sc_seq(p@))) ==> f.requires((x, p)),
      forall |x: &DMatrix, p: &[Sc], o: DMatrix| #[trigger] f.ensures((x, p), o) ==> o@ == g(x@, sc_seq(p@)),
    ensures
      forall |x: MatR, p: Seq<real>| #[trigger] r.g_call(x, p) == g(x, p),
      forall |x: MatR, p: Seq<real>| #[trigger] r.g_req(x, p) == rq(x, p),
  { unimplemented!() }
}
/// Rust allocations are at most isize::MAX bytes, so a Vec whose element type has at least two bytes (String: 24,
/// ModelBasisFunction: 64) has at most usize::MAX / 2 elements. Used for the model's counts only.
#[verifier::external_body]
pub proof fn axiom_vec_len_two_byte_elems<T>(v: Vec<T>) ensures 2 * v@.len() <= usize::MAX {}
/// rule X13: `names.into_iter().map(|s| s.as_ref().to_string()).collect()`: the same names, as Strings, in order
#[verifier::external_body]
pub fn __vp_to_strings(names: Vec<Name>) -> (r: Vec<Name>) ensures r@ == names@ { unimplemented!() }
/// rule X13: `names.iter().cloned().map(|n| n.into()).collect()`
#[verifier::external_body]
pub fn __vp_clone_strings(names: &[Name]) -> (r: Vec<Name>) ensures r@ == names@ { unimplemented!() }
/// `StrType: Into<Name>` instantiated at Name: the identity
pub fn __vp_into_string(s: Name) -> (r: Name) ensures r@ == s@ { s }
/// `s.contains(<char>)`
#[verifier::external_body]
pub fn __vp_str_contains_char(s: &Name, c: char) -> (r: bool) ensures r == s@.contains(c) { unimplemented!() }
/// `[T]::to_vec`: the clones of the elements, in order (a clone of a Name is an equal Name)
pub assume_specification<T: Clone> [<[T]>::to_vec] (s: &[T]) -> (r: Vec<T>) ensures r@ == s@;
pub assume_specification<T: PartialEq> [<[T]>::contains] (s: &[T], x: &T) -> (r: bool)
  ensures r == exists |i: int| 0 <= i < s@.len() && #[trigger] s@[i] == *x;
pub assume_specification<T, E> [core::result::Result::<T, E>::as_mut] (r: &mut core::result::Result<T, E>) -> (o: core::result::Result<&mut T, &mut E>)
  ensures
    *old(r) matches Ok(t0) ==> (o matches Ok(t) && *t == t0 && *final(r) == Ok::<T, E>(*final(t))),
    *old(r) matches Err(e0) ==> (o matches Err(e) && *e == e0 && *final(r) == Err::<T, E>(*final(e)));


// =============================================================================== varpro: model builder vocabulary and its two assumed leaves
/// src/model/builder/error.rs (variant names checked against /repo by the contracts of unit `model`)
pub enum ModelBuildError {
  DuplicateParameterNames { function_parameters: Vec<Name> },
  EmptyParameters,
  FunctionParameterNotInModel { function_parameter: Name },
  InvalidDerivative { parameter: Name, function_parameters: Vec<Name> },
  DuplicateDerivative { parameter: Name },
  MissingDerivative { missing_parameter: Name, function_parameters: Vec<Name> },
  EmptyModel,
  UnusedParameter { parameter: Name },
  IncorrectParameterCount { actual: usize, expected: usize },
  CommaInParameterNameNotAllowed { param_name: Name },
  MissingX,
  MissingInitialParameters,
  IllegalCallToPartialDeriv,
}
pub open spec fn has_comma(s: Seq<char>) -> bool { s.contains(',') }
pub open spec fn no_dups(ns: Seq<Name>) -> bool { forall |i: int, j: int| 0 <= i < j < ns.len() ==> (#[trigger] ns[i])@ != (#[trigger] ns[j])@ }
/// "non-empty, unique, comma-free"
pub open spec fn names_ok(ns: Seq<Name>) -> bool {
  &&& ns.len() > 0
  &&& forall |i: int| 0 <= i < ns.len() ==> !has_comma(#[trigger] ns[i]@)
  &&& no_dups(ns)
}
pub open spec fn name_in(ns: Seq<Name>, s: Seq<char>) -> bool { exists |i: int| 0 <= i < ns.len() && #[trigger] ns[i]@ == s }
/// `idx` is the index mapping of `subset` into `full`: the position of each subset name in the full list
pub open spec fn is_index_mapping(idx: Seq<usize>, full: Seq<Name>, subset: Seq<Name>) -> bool {
  &&& idx.len() == subset.len()
  &&& forall |i: int| 0 <= i < subset.len() ==> (#[trigger] idx[i]) < full.len() && full[idx[i] as int]@ == subset[i]@
}
/// the arguments the wrapped callable hands to the user's function: its declared names, in its own order, looked up by position
pub open spec fn routed(p: Seq<real>, idx: Seq<usize>) -> Seq<real> { Seq::new(idx.len(), |i: int| p[idx[i] as int]) }

/// ASSUMED: `String`'s `Hash` and `Eq` agree and are deterministic (vstd's key model), so a `HashSet<&String>` behaves as
/// the mathematical set of the strings inserted
#[verifier::external_body]
pub proof fn axiom_name_key_model() ensures vstd::std_specs::hash::obeys_key_model::<&Name>() {}

// =============================================================================== std helpers
pub assume_specification<T, U> [core::option::Option::<T>::zip] (a: Option<T>, b: Option<U>) -> (r: Option<(T, U)>)
  where T: core::marker::Destruct, U: core::marker::Destruct
  ensures r == (match (a, b) { (Some(x), Some(y)) => Some((x, y)), _ => None });

/// core's reflexive `impl<T> From<T> for T` is the identity (used by `?` when no conversion is needed)
pub assume_specification<T> [<T as core::convert::From<T>>::from] (t: T) -> (r: T) ensures r == t;
pub assume_specification<T, P: FnOnce(&T) -> bool> [core::option::Option::<T>::filter] (a: Option<T>, predicate: P) -> (r: Option<T>)
  where T: core::marker::Destruct, P: core::marker::Destruct
  requires a matches Some(x) ==> predicate.requires((&x,)),
  ensures r matches Some(y) ==> a == Some(y) && predicate.ensures((&y,), true),
          (a matches Some(x) && predicate.ensures((&x,), false)) ==> r.is_none(),
          (a matches Some(x) && !predicate.ensures((&x,), false)) ==> r == a,
          a.is_none() ==> r.is_none();

// =============================================================================== the model trait contract
/// What "a model honouring the trait contract" means (DESIGN.md section 4). ASSUMED of an arbitrary `Model`,
/// PROVED of the builder-made `SeparableModel` in unit `model`. Any call may return Err at any time.
pub trait SeparableNonlinearModel: Sized {
  type Error;
  spec fn g_inv(&self) -> bool;
  spec fn g_len(&self) -> nat;
  spec fn g_nbasis(&self) -> nat;
  spec fn g_nparams(&self) -> nat;
  spec fn g_params(&self) -> MatR;
  spec fn g_phi(&self, al: MatR) -> MatR;
  spec fn g_dphi(&self, al: MatR, k: int) -> MatR;
  /// sufficient conditions for success (a flaky model may make them `false` everywhere: nothing is lost)
  spec fn g_accepts(&self, p: MatR) -> bool;
  spec fn g_eval_ok(&self, al: MatR) -> bool;
  spec fn g_deriv_ok(&self, al: MatR, k: int) -> bool;
  /// counts are positive and fit the address space (an N x M and an N x P matrix are allocated for them)
  proof fn g_counts(&self) requires self.g_inv() ensures self.g_nbasis() >= 1, self.g_nparams() >= 1, self.g_nbasis() + self.g_nparams() <= usize::MAX;

  fn parameter_count(&self) -> (n: usize) requires self.g_inv() ensures n == self.g_nparams();
  fn base_function_count(&self) -> (n: usize) requires self.g_inv() ensures n == self.g_nbasis();
  fn output_len(&self) -> (n: usize) requires self.g_inv() ensures n == self.g_len();
  fn set_params(&mut self, parameters: DMatrix) -> (r: Result<(), Self::Error>)
    requires old(self).g_inv(), parameters.ok(), parameters@.c == 1,
    ensures final(self).g_inv(),
            // == g_same(old(self), final(self)), written out (a generic helper would be a definitional cycle)
            old(self).g_len() == final(self).g_len() && old(self).g_nbasis() == final(self).g_nbasis() && old(self).g_nparams() == final(self).g_nparams(),
            forall |al: MatR| #[trigger] old(self).g_phi(al) == final(self).g_phi(al),
            forall |al: MatR, k: int| #[trigger] old(self).g_dphi(al, k) == final(self).g_dphi(al, k),
            forall |p: MatR| #[trigger] old(self).g_accepts(p) == final(self).g_accepts(p),
            forall |al: MatR| #[trigger] old(self).g_eval_ok(al) == final(self).g_eval_ok(al),
            forall |al: MatR, k: int| #[trigger] old(self).g_deriv_ok(al, k) == final(self).g_deriv_ok(al, k),
            r.is_ok() ==> final(self).g_params() == parameters@,
            old(self).g_accepts(parameters@) ==> r.is_ok();
  fn params(&self) -> (r: DMatrix) requires self.g_inv() ensures r@ == self.g_params(), r.ok(), r@.c == 1;
  fn eval(&self) -> (r: Result<DMatrix, Self::Error>)
    requires self.g_inv()
    ensures r matches Ok(m) ==> m@ == self.g_phi(self.g_params()) && m.ok() && m@.r == self.g_len() && m@.c == self.g_nbasis(),
            self.g_eval_ok(self.g_params()) ==> r.is_ok();
  fn eval_partial_deriv(&self, derivative_index: usize) -> (r: Result<DMatrix, Self::Error>)
    requires self.g_inv()
    ensures r matches Ok(m) ==> m@ == self.g_dphi(self.g_params(), derivative_index as int) && m.ok()
                                && m@.r == self.g_len() && m@.c == self.g_nbasis(),
            self.g_deriv_ok(self.g_params(), derivative_index as int) ==> r.is_ok();
}

/// what no method of a model may change (a free function: trait default bodies stay opaque for generic `Self`)
pub open spec fn g_same<M: SeparableNonlinearModel>(a: &M, o: &M) -> bool {
  &&& a.g_len() == o.g_len() && a.g_nbasis() == o.g_nbasis() && a.g_nparams() == o.g_nparams()
  &&& forall |al: MatR| #[trigger] a.g_phi(al) == o.g_phi(al)
  &&& forall |al: MatR, k: int| #[trigger] a.g_dphi(al, k) == o.g_dphi(al, k)
  &&& forall |p: MatR| #[trigger] a.g_accepts(p) == o.g_accepts(p)
  &&& forall |al: MatR| #[trigger] a.g_eval_ok(al) == o.g_eval_ok(al)
  &&& forall |al: MatR, k: int| #[trigger] a.g_deriv_ok(al, k) == o.g_deriv_ok(al, k)
}

// =============================================================================== levenberg-marquardt 0.14
pub enum TerminationReason {
  User(&'static str), Numerical(&'static str), ResidualsZero, Orthogonal,
  Converged { ftol: bool, xtol: bool }, NoImprovementPossible(&'static str), LostPatience,
  NoParameters, NoResiduals, WrongDimensions(&'static str),
}
impl TerminationReason {
  /// lm.rs `was_successful`: ResidualsZero | Orthogonal | Converged{..}
  pub open spec fn sp_success(&self) -> bool {
    matches!(self, TerminationReason::ResidualsZero | TerminationReason::Orthogonal | TerminationReason::Converged{..})
  }
  #[verifier::external_body]
  pub fn was_successful(&self) -> (r: bool) ensures r == self.sp_success() { unimplemented!() }
}
pub struct MinimizationReport {
  pub termination: TerminationReason,
  pub number_of_evaluations: usize,
  pub objective_function: Sc,
}
/// the optimizer-facing trait, with the data-structure invariant as a ghost hook
pub trait LeastSquaresProblem: Sized {
  spec fn lsp_inv(&self) -> bool;
  /// what no method may change
  spec fn lsp_frame(&self, other: &Self) -> bool;
  /// what an update with `params` promises beyond the invariant (defined by the implementation)
  spec fn lsp_post(&self, new: &Self, params: MatR) -> bool;
  proof fn lsp_frame_refl(&self) ensures self.lsp_frame(self);
  proof fn lsp_frame_trans(&self, b: &Self, c: &Self) requires self.lsp_frame(b), b.lsp_frame(c) ensures self.lsp_frame(c);
  fn set_params(&mut self, params: &DMatrix)
    requires old(self).lsp_inv(), params.ok(), params@.c == 1,
    ensures final(self).lsp_inv(), old(self).lsp_frame(final(self)), old(self).lsp_post(final(self), params@);
  fn params(&self) -> (r: DMatrix) requires self.lsp_inv();
  fn residuals(&self) -> (r: Option<DMatrix>) requires self.lsp_inv();
  fn jacobian(&self) -> (r: Option<DMatrix>) requires self.lsp_inv();
}
#[verifier::external_body]
pub struct LevenbergMarquardt { _p: core::marker::PhantomData<u8> }
impl LevenbergMarquardt {
  /// ASSUMED (m1): `minimize` touches the problem only through the trait methods, so it returns a problem
  /// reachable from its argument by finitely many `set_params` calls (lm.rs:255-301, 347-433, 506-662).
  /// ASSUMED: for one solver configuration `minimize` is a function of the problem it is given (no hidden state, no
  /// randomness): `sp_minimize` names that function, so "the report that is returned is the optimizer's own report
  /// for this problem" can be stated (C04) and parallel/sequential runs can be compared (C11)
  #[verifier::external_body]
  pub fn minimize<O: LeastSquaresProblem>(&self, target: O) -> (r: (O, MinimizationReport))
    requires target.lsp_inv()
    ensures r.0.lsp_inv(), target.lsp_frame(&r.0), r == self.sp_minimize(target)
  { unimplemented!() }
  pub uninterp spec fn sp_minimize<O>(&self, target: O) -> (O, MinimizationReport);
  #[verifier::external_body]
  pub fn default() -> (r: Self) { unimplemented!() }
  // the configuration methods of levenberg-marquardt 0.14 (lm.rs:120-240): each returns a (possibly different) solver
  #[verifier::external_body] pub fn with_stepbound(self, stepbound: Sc) -> (r: Self) { unimplemented!() }
  #[verifier::external_body] pub fn with_ftol(self, ftol: Sc) -> (r: Self) { unimplemented!() }
  #[verifier::external_body] pub fn with_xtol(self, xtol: Sc) -> (r: Self) { unimplemented!() }
  #[verifier::external_body] pub fn with_gtol(self, gtol: Sc) -> (r: Self) { unimplemented!() }
  #[verifier::external_body] pub fn with_tol(self, tol: Sc) -> (r: Self) { unimplemented!() }
  #[verifier::external_body] pub fn with_patience(self, patience: usize) -> (r: Self) { unimplemented!() }
  #[verifier::external_body] pub fn with_scale_diag(self, scale_diag: bool) -> (r: Self) { unimplemented!() }
}
impl Clone for LevenbergMarquardt { #[verifier::external_body] fn clone(&self) -> (r: Self) ensures r == *self { unimplemented!() } }
impl Copy for LevenbergMarquardt {}
/// nalgebra::convert (simba SupersetOf) from an f64 literal to the scalar type: the same real number
#[verifier::external_body]
pub fn convert(x: F64) -> (r: Sc) ensures r@ == x@ { unimplemented!() }

} // verus!
